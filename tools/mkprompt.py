#!/usr/bin/env python3
"""Write the prompt for an independent seeding sub-agent: tools/mkprompt.py <Cnn> <worktree> <count> [focus text]
The agent sees only the property text (from properties.jsonl) and its own scratch worktree - nothing from /verif."""
import json, sys

pid, wt, count = sys.argv[1], sys.argv[2], int(sys.argv[3])
focus = sys.argv[4] if len(sys.argv) > 4 else ""
props = {json.loads(l)["id"]: json.loads(l) for l in open("/verif/properties.jsonl")}
p = props[pid]
a = p["anchors"]
anchors = "; ".join(f"{m['name']} @ {m['where']}" for m in a.get("mechanism", [])) + " | files: " + ", ".join(a["files"])
names = ", ".join(f"m{k}" for k in range(1, count + 1))
T = f'''You are given a scratch git worktree of the Python library zxdavb/ramses_rf (asyncio library that decodes/encodes/sends RAMSES-II RF packets for Honeywell evohome/HVAC) at {wt} (detached HEAD, clean). Work ONLY inside {wt}. Never read or modify /repo or /verif (they are off limits), and do not look at any other directory under /tmp/wt. There is no network. Python is /venv/bin/python; always run with PYTHONPATH={wt}/src so that YOUR tree is imported (the library is installed in editable mode from another directory, so without PYTHONPATH you would test the wrong code).

This is a mutation-seeding exercise for evaluating a verification tool: I need realistic property-breaking code changes (the kind of regression a maintainer could plausibly introduce in a refactor, an optimisation or a "simplification").

THE PROPERTY (id {pid}): "{p['title']}"
Statement: {p['statement']}
Quantified over: {p['quantifier']['text']}
Code anchors (where the behaviour lives; line numbers may have drifted a little): {anchors}
{('FOCUS for this round: ' + focus) if focus else ''}

YOUR TASK: produce {count} independent change(s) {names} to the library source under {wt}/src (each a separate small patch against the clean HEAD, in different functions / breaking different clauses of the property), such that each change:
  1. still imports/compiles, and the existing test suite still passes exactly as before. Suite command: cd {wt} && PYTHONPATH={wt}/src /venv/bin/python -m pytest -q -p no:cacheprovider --timeout=900 tests   (on the clean tree: "1 failed, 491 passed, 39 skipped, 1 xfailed" - the one failure test_known_list_bad[5] is pre-existing; with your change the result must be identical; run it twice if a result looks flaky);
  2. breaks the property above (a real semantic violation of the statement as written, not a crash on every use, and not something that merely changes internals);
  3. needs something SPECIFIC to manifest: a particular interleaving or timing, a loss/fault at a particular point, a multi-step sequence of operations, an unusual input/configuration, or two cooperating sites that each look fine alone. NOT something that ordinary fault-free use would expose at once.
For each change also write a demonstration program demo.py (plain python, no pytest needed, offline, deterministic, finishing in < 60 s, run as: cd {wt} && PYTHONPATH={wt}/src /venv/bin/python seeded/mK/demo.py) that exits 0 on the clean tree and exits 1 (printing what went wrong) with the change applied. The demo must drive the real library code (you may monkeypatch transports/clocks, or run a hand-stepped/virtual-time asyncio loop, or use real asyncio with short waits; tests/ in the tree shows how the library is driven). The demo must locate nothing by absolute path except through PYTHONPATH / its own location (it will be re-run from a copy of your seeded/mK directory placed inside another checkout of the same commit).

DELIVERABLES, for each K, in {wt}/seeded/mK/ :
  - patch.diff : output of `git diff` for the change alone (must apply to the clean HEAD with `git -C {wt} apply seeded/mK/patch.diff`; only files under src/);
  - demo.py    : as described;
  - meta.json  : {{"property": "{pid}", "title": "<one line: what the change does>", "clause": "<which part of the statement it violates>", "needs": "<what specific circumstance is needed for it to manifest>", "files": ["src/..."], "suite": "<the pytest summary line you observed with the change>", "demo": "<observed: exit code without / with the change>"}}
Procedure per change: edit src -> run the suite -> run demo (must exit 1) -> `git diff -- src > seeded/mK/patch.diff` -> `git checkout -- src` -> run demo again (must exit 0). Leave the worktree with src/ clean at the end. Verify each patch applies cleanly by itself. Do not commit anything.
Report back: for each change a 2-3 line summary (what, where, what it needs) and the observed suite line and demo exit codes. If you notice that the CLEAN tree already violates the property somewhere, say so briefly (input/schedule), but keep your demos away from those paths. If you cannot make {count}, deliver as many as you can and say why.
'''
open(f"/tmp/prompt_{wt.rsplit('/', 1)[-1]}.txt", "w").write(T)
print(f"/tmp/prompt_{wt.rsplit('/', 1)[-1]}.txt")
