#!/venv/bin/python
"""Re-run every seeded change against the CURRENT checks (no suite / demo re-run): tools/recheck_seeds.py [name-prefix ...]
For each /verif/seeded/<name>: scratch worktree of /repo HEAD, apply patch.diff, run the quick check(s) that are recorded as
catching it (or the seed's own property) with VERIF_REPO=<scratch>; prints one line per seed and a summary; exit 1 if a seed that
was caught before is no longer caught (or a check ends in a harness error)."""
import glob, json, os, subprocess, sys

HERE = os.path.dirname(os.path.dirname(os.path.abspath(__file__)))
pref = sys.argv[1:]
bad = []
for d in sorted(glob.glob(os.path.join(HERE, "seeded", "*"))):
    name = os.path.basename(d)
    if pref and not any(name.startswith(p) for p in pref):
        continue
    meta = json.load(open(os.path.join(d, "meta.json")))
    want = meta.get("confirmed", {}).get("caught_by") or []
    checks = want or [meta.get("property", name[:3])]
    wt = f"/tmp/wt/recheck-{name}"
    subprocess.run(f"git -C /repo worktree remove --force {wt}", shell=True, capture_output=True)
    subprocess.run(f"git -C /repo worktree add -q --detach {wt} HEAD", shell=True, check=True)
    try:
        a = subprocess.run(f"git -C {wt} apply {d}/patch.diff || git -C {wt} apply --3way {d}/patch.diff", shell=True, capture_output=True, text=True)
        if a.returncode != 0:
            print(f"{name}: patch no longer applies")
            continue
        res = {}
        for c in checks[:1]:
            r = subprocess.run(f"VERIF_REPO={wt} {HERE}/check {c} --tier quick", shell=True, capture_output=True, text=True, timeout=3600)
            res[c] = r.returncode
        status = "caught" if any(v == 1 for v in res.values()) else ("HARNESS-ERROR" if any(v == 2 for v in res.values()) else "not caught")
        print(f"{name}: {status} {res}" + ("" if want or status != "not caught" else "  (was not caught before either)"), flush=True)
        if status == "HARNESS-ERROR" or (want and status != "caught"):
            bad.append(name)
    finally:
        subprocess.run(f"git -C /repo worktree remove --force {wt}", shell=True, capture_output=True)
        subprocess.run(f"rm -rf {HERE}/.scratch_replays {HERE}/.scratch_evidence", shell=True)
print("REGRESSIONS:", bad)
sys.exit(1 if bad else 0)
