#!/venv/bin/python
"""Regenerate the seeded-change table in DESIGN.md (between the SEEDED-TABLE markers) from seeded/*/meta.json."""
import glob, json, os, re

HERE = os.path.dirname(os.path.dirname(os.path.abspath(__file__)))
rows = []
for d in sorted(glob.glob(os.path.join(HERE, "seeded", "*"))):
    m = json.load(open(os.path.join(d, "meta.json")))
    c = m.get("confirmed", {})
    caught = ", ".join(c.get("caught_by", [])) or ("not caught - see triage in meta.json" if m.get("triage") else "MISSED")
    keys = []
    for ch in c.get("checks", {}).values():
        for k in ch.get("keys", [])[:2]:
            keys.append(k.split(" ")[0].replace("key=", ""))
    title = (m.get("title") or "").replace("|", "/")
    needs = (m.get("needs") or "").replace("|", "/")
    rows.append(f"| {os.path.basename(d)} | {title[:150]} | {needs[:170]} | {caught} | {'; '.join(keys)[:150]} |")
table = "| seed | change | needs, to manifest | caught by | first oracle clauses |\n|---|---|---|---|---|\n" + "\n".join(rows)
p = os.path.join(HERE, "DESIGN.md")
s = open(p).read()
s2 = re.sub(r"(<!-- SEEDED-TABLE-BEGIN -->\n).*?(\n<!-- SEEDED-TABLE-END -->)", lambda mo: mo.group(1) + table + mo.group(2), s, flags=re.S)
open(p, "w").write(s2)
print(len(rows), "rows")
