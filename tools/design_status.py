#!/venv/bin/python
"""Regenerate the generated status blocks of DESIGN.md (fix counts per property, open findings) from known_findings.json."""
import collections, json, os, re

HERE = os.path.dirname(os.path.dirname(os.path.abspath(__file__)))
k = json.load(open(os.path.join(HERE, "known_findings.json")))
fixed = collections.Counter(re.search(r"property=(C\d+)", f).group(1) for f in k["fixed"])
opened = collections.Counter(f["property"] for f in k["findings"] if f.get("status") == "open")
block = (
    f"Generated from known_findings.json: **{len(k['fixed'])} repaired defects** ("
    + ", ".join(f"{p} x{n}" for p, n in sorted(fixed.items()))
    + f"); **{sum(opened.values())} open findings** ("
    + ", ".join(f"{p} x{n}" for p, n in sorted(opened.items()))
    + ")."
)
p = os.path.join(HERE, "DESIGN.md")
s = open(p).read()
s2 = re.sub(r"(<!-- STATUS-BEGIN -->\n).*?(\n<!-- STATUS-END -->)", lambda m: m.group(1) + block + m.group(2), s, flags=re.S)
open(p, "w").write(s2)
print(block)
