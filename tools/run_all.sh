#!/bin/bash
# tools/run_all.sh [quick|thorough] [seed]  - every registered check, one after the other; one line each (exit code, wall time, known findings)
cd "$(dirname "$0")/.."
tier="${1:-quick}"; export VERIF_SEED="${2:-0}"
bad=0
for i in 01 02 03 04 05 06 07 08 09 10 11 12 13 14 15 16 17 18 19 20; do
  s=$(date +%s); ./check C$i --tier "$tier" > /tmp/run_all_C$i.log 2>&1; rc=$?; e=$(date +%s)
  echo "C$i rc=$rc $((e-s))s known=$(grep -c '^KNOWN-FINDING' /tmp/run_all_C$i.log) $(grep -m1 'VIOLATION\|HARNESS' /tmp/run_all_C$i.log)"
  [ $rc -ne 0 ] && bad=1
done
exit $bad
