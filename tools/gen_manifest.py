#!/venv/bin/python
"""Regenerate /verif/MANIFEST.json from the table below (keeps it schema-valid at all times)."""

import json
import os

HERE = os.path.dirname(os.path.dirname(os.path.abspath(__file__)))

ALL = [f"C{i:02d}" for i in range(1, 21)]

E1 = "bounded exhaustive schedule exploration of the real asyncio code (stateless DFS, deviation-bounded, virtual loop/clock/transport)"
E2 = "explicit-state search over operation histories of the real objects against a reference model (BFS, canonical-state dedup)"
E3 = "bounded-exhaustive input/configuration enumeration against a reference model (depth-1 model checking)"

CHECKS = {
    "C12": dict(
        engine="E1-sched (configurations x fault sequences)",
        category="model_checking",
        technique=E1 + "; scripted controller holding the configuration as reference model; full configuration product at deviation bound 0",
        text="The real Gateway with discovery enabled and no schema runs on the virtual loop against a scripted controller that answers RQ|0005/000C as an "
        "evohome does. (A) Full product of configurations - zone slot 00 absent or class radiator/zone-valve/electric/mixing x sensor thermostat / own TRV / "
        "the controller / digital thermostat x 0, 1, 2, 8 actuators; slots 05 and 0B absent or any class; every subset of DHW sensor / hot-water valve / heating "
        "valve; appliance none / relay / OpenTherm bridge (quick 2.3 k, thorough 39 k) - plus every zone index alone, all 12 zones, both 000C element layouts, "
        "sensorless zones: after 300 virtual seconds the schema's facts equal the configuration's. (B) For 5 representative configurations every assignment of "
        "fates {transmission lost, reply lost, whole command lost through all retransmissions, every reply lost} to the 0005/000C exchanges of the first round "
        "with <= 1 (thorough 2, also in the second round) deviations, horizon 25 (49) virtual hours: the schema ends equal to the configuration, and every "
        "sample on the way holds only facts the controller stated and never loses one.",
        design_ref="4/C12",
        note="A zone whose sensor is the controller itself is not revealed by 000C (real controllers answer 'no device'): sensor unknown or = controller are both accepted. "
        "Thermostats shared between zones and UFH zones are outside the product.",
    ),
    "C20": dict(
        engine="E1-sched (two gateways + ether)",
        category="model_checking",
        technique=E1 + "; two real Gateways joined by an ether whose every delivery decision is a choice point",
        text="For each of the repo's five pairing flows (thermostat->controller, CO2->fan, remote->fan, display->fan, DHW sensor->controller; with and "
        "without addenda) a faked supplicant and a faked respondent run on two real Gateways on one virtual loop. At every transmission of a 1FC9/10E0 "
        "frame the explorer chooses: heard once; heard 2 or 3 times in one loop iteration / 20 ms / 150 ms apart; lost for the peer / for everybody / for the sender's own gateway only (echo missed); the "
        "whole command (all retransmissions) lost / unheard by the peer; heard 2.95, 3.05, 4.95, 5.05, 5.15 s late (around the 3 s and 5 s waits); followed by "
        "a third party's offer, broadcast offer, accept or confirm; the respondent or supplicant caller abandons; the application calls the entry point a second time in mid-handshake. All schedules with <= 3 repeats-only "
        "deviations (thorough 4 = every repeat pattern over every frame), <= 2 (3) mixed deviations, <= 3 (4) loss/late/cancel deviations, plus start offsets of "
        "either side around the 5 s offer wait. Oracle: under repeats and third-party traffic both ends succeed with frame-for-frame equal tuples equal to "
        "the flow; every attempt ends within the sum of its stated waits with the tuple or a library error; once both have ended neither device is binding; "
        "nothing reaches the loop exception handler; a fresh fault-free attempt 0.5 s (or 12 s) later succeeds with equal tuples.",
        design_ref="4/C20",
        note="A failed send surfaces as ProtocolSendFailed (a library error, not a BindingError): accepted as the attempt's error. asyncio's 'exception was never retrieved' notice for a state "
        "future failed by its own timer is not counted as a loop exception. Impersonation notices are off, as in the repo's binding tests.",
    ),
    "C18": dict(
        engine="E1-sched",
        category="model_checking",
        technique=E1 + "; scripted controller (per-zone schedule version history + change counter) as reference model",
        text="Every schedule with <= D deviations (D=2 for one transfer, D=1 for 2-3 concurrent transfers and the time-out sweep; thorough D=3/2) of the real "
        "Gateway + Schedule/ScheduleSync + QoS FSM on the virtual loop against a scripted controller. Choice points: the fate of every transmission (whole exchange lost / every reply of the exchange lost / ok / "
        "reply lost / transmission lost / reply twice / reply after the retransmission timer) and, between any two exchanges, an environment event (the "
        "schedule of this or another zone changes at the controller with the same or another fragment count / any fragment of any zone is overheard / the "
        "caller abandons). Scenario product: get and set x zones 01, 02, DHW x fragment counts 1-3 x force_io x cold / cached / cached-then-changed / "
        "counter cache aged out x caller time-out just before and after every exchange boundary x a second and third transfer started at each exchange. "
        "Oracle: each call ends; a returned schedule is exactly one version the controller held for that zone, current at some instant of the transfer "
        "(not older than the last counter read); errors are TimeoutError or library errors; 5 s later the lock is free; a fault-free forced fetch of "
        "every zone then returns the controller's current schedule; nothing reaches the loop exception handler.",
        design_ref="4/C18",
        note="The scripted controller uses the library's own fragment codec (C17's subject), commits a write when the last fragment arrives with all others present, and stays silent for a "
        "fragment number beyond the current total. One protocol-level race (a change at the controller between set_schedule's last ack and its closing counter read) is a recorded finding.",
    ),
    "C14": dict(
        engine="E2-hist",
        category="model_checking",
        technique=E2 + " ('newest live message wins'), plus whole-domain enumeration of expiry thresholds",
        text="All histories of depth 3 (thorough 4) over five letter groups - per-zone RP, array I over three zone subsets, device broadcasts; zones "
        "00/01/0B, two values, two devices; each group holds every letter that touches one attribute family plus interleaved letters for other zones and "
        "codes - fed to a real Gateway with a configured schema: after every step every attribute named by the reference model equals the value of the "
        "newest message for it. Expiry: one frame per message kind (+ an RP|3220 for every OpenTherm data-id) x 8 clock offsets around L and 2L, L taken "
        "from a reference table of lifetimes per kind copied into the check (fresh object and same object, so memoisation is "
        "covered) and all 65,536 sync-cycle countdown words; at attribute level, after 2L+30 s the value must read unknown on the first and later reads.",
        design_ref="4/C14",
        note="A kind's lifetime L is the library's own table (1F09: the countdown in the payload); grace after 2L up to 10 s; the stale first read after expiry is a recorded finding.",
    ),
    "C15": dict(
        engine="E2-hist + E3-enum",
        category="exploration",
        technique="bounded enumeration of configurations (schema product) and of single-edit packet histories on the real Gateway, with invariants on every reached state and a reload differential",
        text="(1) Generated schemas: the full product of zone-00 and zone-01 options (absent / 5 classes x sensor none|thermostat|TRV|controller x 0-2 "
        "actuators / empty zone) x zone 0B x every subset of DHW parts x appliance none|relay|OpenTherm, plus two controllers / orphans / UFH: whatever "
        "the validator accepts must load, be reported as configured, and reload to the same. (2) Histories: the repo's logs under max_zones 1/4/12/16 and "
        "eavesdropping off/on checked every 10th packet, and every single edit (delete, duplicate, swap, extreme-value field mutation) checked after the "
        "edit and at the end: the reported schema validates (full and shrunk), a fresh gateway built from it has the same controllers / zones (class, "
        "sensor, actuators) / DHW / appliance, structural invariants hold, and no device changes parent without SystemSchemaInconsistent being reported.",
        design_ref="4/C15",
        note="Orphans are not part of the reload comparison (the statement lists controllers, zones, DHW, appliance); generated schemas never put one device in two zones.",
    ),
    "C16": dict(
        engine="E2-hist (differential)",
        category="exploration",
        technique="bounded enumeration of reachable gateway states (prefixes and single edits of recorded histories) with a differential oracle: state rebuilt in a fresh real Gateway must equal the state it was saved from",
        text="Gateway states = every 5th (thorough: every) prefix of the repo's system/schema/eavesdrop/device logs and the end of every single deletion/"
        "duplication of the shortest logs, eavesdropping off and on. At each state and for include_expired off/on: get_state() -> content rules (every "
        "packet decodes; no RQ; no W but 0404; nothing expired unless asked, judged on freshly decoded messages) -> a brand-new Gateway on a new virtual "
        "loop started with the saved schema and packets -> get_state() again must return the same packets, and the same schema with eavesdropping off -> "
        "restoring the snapshot a second time, and into the gateway it came from, changes nothing.",
        design_ref="4/C16",
        note="Histories are given increasing unique timestamps (some repo logs are curated out of order); with include_expired the fixpoint is demanded of the "
        "packets live at snapshot time (expired ones may only disappear, by design of expiry).",
    ),
    "C13": dict(
        engine="E2-hist",
        category="exploration",
        technique="exhaustive single-edit neighbourhoods of recorded histories replayed on the real Gateway (bounded history enumeration with invariants evaluated on reached states)",
        text="The repo's system, schema, eavesdrop, device and fault-log logs (quick: those of <= 200 lines; thorough: all), eavesdropping off and on, are "
        "fed packet by packet to a real Gateway on the virtual loop: unedited with every view after every packet and get_state+restore at every 5th / "
        "every prefix, and EVERY single edit (delete, duplicate, swap neighbours, splice 40 lines of a device-disjoint system at every position, every "
        "extreme-value field mutation inside the schema regex at every line). Views must not raise; after get_state/restore - successful or not - the "
        "engine must be running, a received packet handled and a sent command written; a spliced neighbour must not change the known system's state.",
        design_ref="4/C13",
        note="Views are evaluated around the edit, every 25th packet and at the end (states before the edit are the unedited log's, covered in full); splice "
        "positions that separate two fragments of one array broadcast are exempt from the differential (the library merges fragments only when consecutive).",
    ),
    "C11": dict(
        engine="E1-sched (operation sequences)",
        category="model_checking",
        technique="bounded exhaustive enumeration of operation sequences executed on the real transports under a virtual clock; oracle over every write-delimited window",
        text="All operation sequences (idle gap x burst size x frame length x sequential/concurrent) to depth 2 (thorough: depth 3 over a smaller "
        "alphabet) plus steady streams below/at/above the limit followed by a burst, run on the real PortTransport.write_frame - the module is "
        "re-imported under a virtual perf_counter so the real @limit_duty_cycle closure and leaky semaphore are fresh - and on the real "
        "MqttTransport.write_frame with a fake paho client. For every pair of writes: bits <= fill x dt + one bucket + pending frames; count <= dt/gap + 2; "
        "every accepted frame written once, unaltered, in order; MQTT publishes within the token allowance, over-budget writes dropped.",
        design_ref="4/C11",
        note="Deemed bits per frame are the library's own accounting constant; idle gaps up to 600 s; the MQTT bound uses the initial double bucket (2 x 80).",
    ),
    "C06": dict(
        engine="E3-enum on the real FSM",
        category="exploration",
        technique=E3 + ", each case driven through the real PortProtocol/ProtocolContext states (WantEcho, WantRply) on the virtual loop",
        text="Every distinct command frame the public constructors build over their C03 domains plus raw RQ/W words of every schema regex, with the "
        "gateway id known and unknown: sent through a real PortProtocol, then fed near-miss echoes (other code, verb, source, context) that must be "
        "ignored, the echo with the gateway's real id that must be recognised, near-miss replies (other code, verb, responding device, context; a "
        "foreign 0418 null entry) that must be ignored, and each proper reply (log examples and reply-regex words carrying the request's context, "
        "incl. the 0418 null entry) that must be handed to the caller.",
        design_ref="4/C06",
        note="Context positions per code are a small reference table in the check; a reply addressed to another gateway is not treated as a near miss.",
    ),
    "C05": dict(
        engine="E3-enum + E2-hist",
        category="exploration",
        technique=E3 + "; all ordered pairs (thorough: + triples) of packet decodes for order independence",
        text="The language of each of the 240 verb/code payload regexes is enumerated structurally (every structural variant x <=1 class-position "
        "deviation over the whole class, <=2 for short payloads, + 7F/FF sentinels) under several address shapes: every packet that decodes must be "
        "JSON round-trippable, decode identically again / with the clock 18 months on / after clearing every lru_cache, report the index its frame "
        "carries, keep ratios in 0..1 and temperatures in the wire range. All arrays of length 1..3 over an element domain and all one-element "
        "deviations of lengths 4..8 for the 7 array codes decode to the list of their elements. All ordered pairs of 300 (thorough 1500) representative "
        "packets: decode(B) after decode(A) equals decode(B) alone.",
        design_ref="4/C05, 3",
        note="Index rule: zone/domain/dhw/ufh/hvac idx = first byte of the (element's) payload, log_idx/msg_id = third byte; 0005/000C/0404/1FC9/2411 "
        "indexes are not compared. Ratio/temperature key sets are listed in the check.",
    ),
    "C10": dict(
        engine="E3-enum",
        category="exploration",
        technique=E3 + ", each case executed through the real Gateway/protocol/dispatcher on the virtual loop",
        text="All 1152 configurations (known_list subsets x block_list subsets x enforce x active gateway listed/foreign/unknown) x 216 packets over the "
        "three address shapes with src/dst from listed, unlisted, blocked, listed+blocked, gateway, foreign gateway, placeholder, broadcast and null ids "
        "(+ ids that only occur in a 000C payload), received by a real Gateway, then 49 commands sent through gwy.async_send_cmd, then the receive pass "
        "again; the oracle is the statement as a predicate (blocked never passes nor creates a device, enforced list likewise, allowed always passes).",
        design_ref="4/C10",
        note="An enforce request with an empty known list is not enforceable (library-defined); 'delivered' = reaches a handler added with add_msg_handler.",
    ),
    "C17": dict(
        engine="E3-enum + E2-hist",
        category="exploration",
        technique=E3 + "; every permutation and single repeat of the fragment packets against the real Schedule._handle_msg",
        text="Complete one-dimensional sweeps inside a 7-day skeleton (all 3001 setpoints, all 288 times of day, zones 00-0B and HW x 1..12 switchpoints "
        "per day), a small-scope product, all 256 DHW patterns and a compressed-length sweep: validator accepts => decode(encode(s)) == s, every fragment "
        "<= 41 bytes, every W|0404 built from a fragment decodes back to it. For schedules of 1..5 (thorough 6) fragments, the RP packets are fed to the "
        "real Schedule._handle_msg in every permutation and with every single repeat at every place: the schedule is the right one or None after every step.",
        design_ref="4/C17",
        note="Seven-day schedules with ordered switchpoints (as the statement says); Schedule driven with a stub zone (no lock held).",
    ),
    "C19": dict(
        engine="E2-hist",
        category="model_checking",
        technique=E2,
        text="Explicit-state BFS over all histories to depth 7 (thorough 9) of a reference controller log (depth <= 5/6) observed through the real "
        "FaultLog: new entry with announcement delivered or lost, solicited reply for any position (incl. null), read-through (limit 64 and 2) by the "
        "real get_faultlog() on the virtual loop against a scripted controller, read-through with the k-th request failing, read-through during which "
        "a new entry arrives; invariants in every state (views never raise, newest-first, no entry twice, only reported entries), read-through equality, "
        "announcement pushes known entries down; a second BFS from non-initial states (the controller already holds 4-5 / 5-6 entries unknown to the "
        "library) to depth 5 (7) with log depth <= 6 (8); the controller's log silently cut short (prior belief arbitrary), views polled during a read-through, a bystander and a peer "
        "fault log in the same process; plus a 70-entry history and full 64-/66-entry logs read from scratch for the 64-slot limit.",
        design_ref="4/C19",
        note="Dedup on (controller log, FaultLog._map, FaultLog._log keys, _is_getting); timestamps unique and increasing; the dispatcher hands each RP to handle_msg before get_faultlog processes it.",
    ),
    "C01": dict(
        engine="E3-enum",
        category="exploration",
        technique=E3 + "; bad line at every stream position and every read partition through the real transports on the virtual loop",
        text="(1) Every single edit (11 substitution characters, delete, 3 inserts at every position; length/payload/address/code/verb field edits; "
        "thorough: + all pairs at field boundaries) of one line per distinct frame signature of the repo's logs, through Packet.from_file/from_port/"
        "from_dict + Message and, batched, through the real FileTransport+ReadProtocol: only PacketInvalid (or ValueError for an empty line) may "
        "appear, nothing may reach the loop exception handler, exactly the decodable lines are delivered. (2) 22 bad-line classes at every position "
        "of a stream via dict, log file and serial port. (3) Every <=2-cut (thorough <=3-cut) partition of a serial byte stream, 1-byte and empty reads.",
        design_ref="4/C01",
        note="Edit alphabet and base selection are stated in the evidence rule; MQTT: each line travels in a well-formed ramses_esp JSON envelope (malformed envelopes are outside the statement).",
    ),
    "C02": dict(
        engine="E3-enum",
        category="exploration",
        technique=E3,
        text="Full product verb x seqn x legal address shapes x device-type pairs x codes x every payload length 1..48 x fills (+ sweeps of all 64 "
        "device types per position, all known codes, all 256 seqn): each frame is parsed as Command, as Packet under 4 RSSI forms and 4 annotation "
        "forms, via repr, and via every applicable CLI short form, and printed back; a slice x 8 timestamps (usec edge cases, leap day, 2000, 2099) "
        "is written by the library's own packet logger to a real file and replayed by the real FileTransport on the virtual loop.",
        design_ref="4/C02",
        note="Frames rejected with PacketInvalid are outside this property (C01 covers totality); TZ=UTC for the logger's local-time formatting.",
    ),
    "C03": dict(
        engine="E3-enum",
        category="exploration",
        technique=E3,
        text="For each of the 45 CODE_API_MAP constructors a written domain description; the full product of in-domain argument lists (complete 0.01 "
        "sweeps of temperature/setpoint args, all 256 OpenTherm ids, all fragment n/total pairs, bind code lists x idx, mode x until x duration) and "
        "per-argument out-of-domain values are built, decoded with Message._from_cmd and compared key-by-key with what was passed. Whole small domains, not samples.",
        design_ref="4/C03",
        note="Domains come from the constructors' own range checks/docstrings and the wire format; decoded keys are matched by the constructor's argument "
        "names (the convention of the repo's API tests). 23 genuine defects in rarely used constructors are listed in known_findings.json by (constructor, argument shape, clause).",
    ),
    "C04": dict(
        engine="E3-enum",
        category="exploration",
        technique=E3,
        text="Whole finite domains of every scalar codec: all 65,536 temperature words and all k/100, all 4-hex doubles at factors 1/10/100, all 256 "
        "percent/flag bytes, every minute of 2 (thorough 12) years x DST x 12/14-hex, packed timestamps across 2000-2099, all 2^24 device ids; exact "
        "inverse in both directions, sentinels preserved, out-of-range never wrapped.",
        design_ref="4/C04",
        note="Text grid = printable ASCII without leading/trailing blanks; date-time wire words with day-of-week bits are only checked in the encoder->decoder direction.",
    ),
    "C07": dict(
        engine="E1-sched",
        category="model_checking",
        technique=E1 + "; plus explicit-state breadth-first search with state hashing over the same real world (any number of deviations of the kinds named per scenario)",
        text="Every schedule with <= D deviations (D=1 on the full QoS product, D=2 per command kind and for 2-3 concurrent callers; thorough D=3/2) "
        "of the real PortProtocol.send_cmd/ProtocolContext on a virtual loop: each caller finishes within min(timeout,20)+notice with its own echo/"
        "reply or a ProtocolError. The suite runs a handful of real-time flows; this enumerates the interleavings of packets, timers, faults and callers. "
        "State-hashing BFS (18 graphs quick, all closed): every schedule with ANY number of losses / duplicates / late packets / third-party look-alikes / "
        "failed writes / disconnects for 1-3 callers, each caller judged on the transition on which it ends. Scenario inputs also cover the wall clock the "
        "send queue used (1 ms resolution, step back) and one QosParams object shared by consecutive commands under each gateway QoS mode.",
        design_ref="4/C07, 2",
        note="Trusted: asyncio Task/Future semantics on the hand-stepped loop; loop lateness <= 1 ms; environment = scripted echo/reply generator + foreign near-miss packets. "
        "A reply addressed to another gateway but with the same device/code/context is accepted as belonging (DESIGN 5).",
    ),
    "C08": dict(
        engine="E1-sched",
        category="model_checking",
        technique=E1,
        text="All loss patterns over the attempts of one command (drop-only schedules to D=4 quick / D=8 thorough = every subset), max_retries 0..5 x "
        "time-outs around each back-off deadline, all 3^N priority assignments for N<=4 queued commands, queued time-outs, late arrivals, 33 callers; "
        "the wall clock the queue stamped entries with reading alike / set back; oracle on the (event#, virtual time, frame) sequence handed to transport.write_frame.",
        design_ref="4/C08",
        note="Back-off after an attempt whose echo arrived is only bounded (statement ambiguous, DESIGN 5); 'queued before' needs >= 3 loop iterations of lead; frames distinct per caller for attribution.",
    ),
    "C09": dict(
        engine="E1-sched",
        category="model_checking",
        technique=E1 + "; plus explicit-state breadth-first search with state hashing over the same real world",
        text="Every episode with <= 2 (thorough 3) deviations incl. coincident timers, failed writes, disconnect in every state, pause, duplicates and late "
        "packets; at quiescence the real FSM must be idle/inactive with nothing in flight, no tripped internal assert, no loop exception, and a probe send must succeed. "
        "Plus explicit-state BFS with state hashing (any number of losses / duplicates / late packets / failed writes / disconnects / pauses / timer coincidences, "
        "a transport that holds frames before writing them, traffic of a block-listed device), all graphs closed.",
        design_ref="4/C09",
        note="Reconnect of the same protocol object is not a library path and is not explored; single loop thread (CheckedLock turns a blocking re-acquire into a reported deadlock).",
    ),
}


def main() -> None:
    checks = []
    for pid in ALL:
        c = CHECKS.get(pid)
        if not c:
            continue
        checks.append(
            {
                "property_id": pid,
                "quick_cmd": f"./check {pid} --tier quick",
                "thorough_cmd": f"./check {pid} --tier thorough",
                "evidence_file": f"/verif/evidence/{pid}.json",
                "replay_cmd_template": f"./check {pid} --replay {{path}}",
                "engine": c["engine"],
                "level_claimed": {"category": c["category"], "text": c["text"], "design_ref": f"DESIGN.md section {c['design_ref']}"},
                "level_note": c["note"],
                "technique": c["technique"],
            }
        )
    na = [
        {"property_id": pid, "reason": "check not built yet in this session (planned: see DESIGN.md section 4); no claim is made"}
        for pid in ALL
        if pid not in CHECKS
    ]
    man = {
        "version": 1,
        "setup_cmd": "cd /verif && /venv/bin/python -m compileall -q mc checks tools >/dev/null && PYTHONPATH=/repo/src /venv/bin/python -c 'import ramses_tx, ramses_rf; print(ramses_tx.__file__)'",
        "hooks": {
            "guard": "RAMSES_RF_VERIF",
            "enable": "none needed: every seam (event loop, clock, transport, locks) is substituted from outside by the harness; ./check exports RAMSES_RF_VERIF=1 for completeness",
            "baseline_off_cmd": "cd /repo && /venv/bin/python -m pytest -ra -q -p no:cacheprovider --timeout=900 --continue-on-collection-errors",
            "source_commits": [],
            "add_only": True,
        },
        "engines": [
            {"name": "E1-sched", "path": "/verif/mc/explore.py", "serves_properties": ["C07", "C08", "C09", "C11", "C12", "C18", "C20"], "kind_free_text": E1},
            {"name": "E2-hist", "path": "/verif/mc/hist.py", "serves_properties": ["C13", "C14", "C15", "C16", "C19"], "kind_free_text": E2},
            {"name": "E3-enum", "path": "/verif/mc/enum.py", "serves_properties": ["C01", "C02", "C03", "C04", "C05", "C06", "C10", "C17"], "kind_free_text": E3},
        ],
        "checks": checks,
        "notes": "All checks run the library from $VERIF_REPO/src (default /repo) - the current working tree, no build step. Exit 0/1/2 = held / VIOLATION / harness error. known_findings.json lists genuine defects (open and fixed).",
        "not_applicable": na,
    }
    with open(os.path.join(HERE, "MANIFEST.json"), "w") as f:
        json.dump(man, f, indent=1)
        f.write("\n")
    print("MANIFEST.json:", len(checks), "checks,", len(na), "not_applicable")


if __name__ == "__main__":
    main()
