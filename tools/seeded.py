#!/venv/bin/python
"""Confirm a seeded change and run checks against it.

usage: tools/seeded.py <seed_dir> <name> <check ids...>
  seed_dir holds patch.diff, demo.py, meta.json (written by an independent sub-agent).
Creates a scratch worktree of /repo HEAD under /tmp/wt, confirms: patch applies; demo exits 0 without / 1 with
the patch; the repo's suite still passes with it; then runs each check with VERIF_REPO=<scratch> and records
which ones report a VIOLATION. Copies the lot to /verif/seeded/<name>/ and removes the worktree.
"""
import json, os, shutil, subprocess, sys, time

def sh(cmd, **kw):
    return subprocess.run(cmd, shell=True, capture_output=True, text=True, **kw)

def main():
    seed, name, checks = sys.argv[1], sys.argv[2], sys.argv[3:]
    wt = f"/tmp/wt/confirm-{name}"
    sh(f"git -C /repo worktree remove --force {wt}")
    r = sh(f"git -C /repo worktree add -q --detach {wt} HEAD")
    assert r.returncode == 0, r.stderr
    env = dict(os.environ, PYTHONPATH=f"{wt}/src", PYTHONHASHSEED="0")
    out = {"name": name, "seed_dir": seed, "repo_head": sh("git -C /repo rev-parse --short HEAD").stdout.strip()}
    try:
        # run the demonstration from inside the scratch tree (some demos locate src/ relative to their own path)
        local = f"{wt}/seeded/{os.path.basename(seed.rstrip('/'))}"
        os.makedirs(os.path.dirname(local), exist_ok=True)
        shutil.copytree(seed, local, dirs_exist_ok=True)
        d0 = sh(f"/venv/bin/python {local}/demo.py", env=env, cwd=wt, timeout=600)
        out["demo_without"] = d0.returncode
        a = sh(f"git -C {wt} apply {seed}/patch.diff")
        if a.returncode != 0:
            a = sh(f"git -C {wt} apply --3way {seed}/patch.diff")
        out["applies"] = a.returncode == 0
        if not out["applies"]:
            out["apply_err"] = a.stderr[-400:]
            print(json.dumps(out, indent=1)); return 1
        d1 = sh(f"/venv/bin/python {local}/demo.py", env=env, cwd=wt, timeout=600)
        out["demo_with"] = d1.returncode
        out["demo_tail"] = (d1.stdout + d1.stderr)[-300:]
        # (tests_rf holds a few real-time tests that flake when the machine is busy: up to 3 runs, the best one is recorded)
        runs = []
        for _ in range(3):
            t = sh("/venv/bin/python -m pytest -q -p no:cacheprovider --timeout=900 tests 2>&1 | grep -E '^FAILED|passed|failed' | tail -6", env=env, cwd=wt, timeout=1800)
            lines = t.stdout.strip().splitlines()
            runs.append(lines)
            if lines and lines[-1].startswith("1 failed, 491 passed"):
                break
        out["suite_tail"] = min(runs, key=lambda l: len([x for x in l if x.startswith("FAILED")]))[-3:]
        out["suite_runs"] = [l[-1] if l else "" for l in runs]
        res = {}
        for c in checks:
            t0 = time.time()
            k = sh(f"VERIF_REPO={wt} /verif/check {c} --tier quick", timeout=3600)
            keys = [l.strip() for l in k.stdout.splitlines() if l.strip().startswith("key=")]
            res[c] = {"exit": k.returncode, "violations": len([l for l in k.stdout.splitlines() if l.startswith("VIOLATION")]), "keys": keys[:6], "wall_s": round(time.time() - t0, 1),
                      "harness_error": [l for l in k.stdout.splitlines() if l.startswith("HARNESS")][:2]}
        out["checks"] = res
        out["caught_by"] = [c for c, v in res.items() if v["exit"] == 1]
    finally:
        sh(f"git -C /repo worktree remove --force {wt}")
    dst = f"/verif/seeded/{name}"
    os.makedirs(dst, exist_ok=True)
    for f in ("patch.diff", "demo.py"):
        shutil.copy(f"{seed}/{f}", f"{dst}/{f}")
    meta = json.load(open(f"{seed}/meta.json"))
    meta["confirmed"] = out
    json.dump(meta, open(f"{dst}/meta.json", "w"), indent=1)
    print(json.dumps(out, indent=1))
    return 0

sys.exit(main())
