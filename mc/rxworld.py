"""Receive-side worlds: the real FileTransport / PortTransport on the virtual loop with a recording
protocol. Serves C01 and C02."""

from __future__ import annotations

import io
import os
import tempfile

from . import logcap
from .vloop import dispose_loop, install_loop


class RecProtocol:
    """Stands where a ReadProtocol would: records what the transport hands over."""

    def __init__(self) -> None:
        self.pkts: list = []
        self.lost: list = []
        self.made = 0

    def connection_made(self, transport, ramses: bool = False) -> None:
        self.made += 1

    def connection_lost(self, err) -> None:
        self.lost.append(err)

    def pkt_received(self, pkt) -> None:
        self.pkts.append(pkt)

    def pause_writing(self) -> None:
        pass

    def resume_writing(self) -> None:
        pass


def replay_source(source, use_real_protocol: bool = False):
    """Run the real FileTransport over a dict or a text log (str -> temp file) to completion.

    Returns (packets delivered or messages handled, connection_lost args, loop exception contexts, log records).
    """
    from ramses_tx.transport import FileTransport

    loop = install_loop()
    logcap.CAP.reset()
    tmp = None
    try:
        if use_real_protocol:
            from ramses_tx.protocol import ReadProtocol

            got: list = []
            proto = ReadProtocol(got.append)
            lost: list = []
            orig_lost = proto.connection_lost

            def _lost(err):
                lost.append(err)
                orig_lost(err)

            proto.connection_lost = _lost
        else:
            proto = RecProtocol()
            got, lost = proto.pkts, proto.lost
        if isinstance(source, dict):
            src = source
        else:
            fd, tmp = tempfile.mkstemp(prefix="verif_", suffix=".log")
            with os.fdopen(fd, "w") as f:
                f.write(source)
            src = open(tmp)  # a TextIOWrapper, as the library expects
        FileTransport(src, proto, loop=loop)
        loop.quiesce(10.0)
        if not isinstance(source, dict):
            src.close()
        import gc

        gc.collect()
        excs = [(type(c.get("exception")).__name__, str(c.get("exception"))[:160], c.get("message")) for c in loop.exc]
        return list(got), list(lost), excs, list(logcap.CAP.records)
    finally:
        dispose_loop(loop)
        if tmp:
            os.unlink(tmp)


class FakeSerial:
    name = portstr = port = "/dev/fake"

    def __init__(self, loop) -> None:
        self.loop = loop
        self.rx: list[bytes] = []
        self.tx: list[tuple] = []
        self.is_open = True
        self.in_waiting = 0
        self.out_waiting = 0
        self.timeout = 0
        self.write_timeout = 0

    def fileno(self) -> int:
        return 99

    def read(self, n: int) -> bytes:
        return self.rx.pop(0) if self.rx else b""

    def write(self, data: bytes) -> int:
        self.tx.append((self.loop.time(), bytes(data)))
        return len(data)

    def flush(self) -> None:
        pass

    def close(self) -> None:
        self.is_open = False

    def reset_input_buffer(self) -> None:
        pass


SIG_ECHO = b"@@SIGNATURE-ECHO@@"


def port_reads(chunks: list[bytes], use_real_protocol: bool = False, sending: bool = False):
    """Feed the real PortTransport a sequence of read() results, one _read_ready() each. Read-only by default; with sending=True the
    transport first polls the port with its signature frame (written twice here before the gateway echoes the first: a gateway slower
    than the 50 ms poll), and SIG_ECHO in a chunk stands for a (later) echo of that signature."""
    import ramses_tx.transport as T

    loop = install_loop()
    logcap.CAP.reset()
    try:
        T.is_hgi80 = lambda name: False  # noqa: E731
        T._global_sync_cycles.clear()  # process-wide state of the sync-cycle tracker
        if use_real_protocol:
            from ramses_tx.protocol import ReadProtocol

            got: list = []
            proto = ReadProtocol(got.append)
        else:
            proto = RecProtocol()
            got = proto.pkts
        ser = FakeSerial(loop)
        tr = T.PortTransport(ser, proto, disable_sending=not sending, loop=loop)
        echo = b""
        if sending:
            n = 0
            while len(ser.tx) < 2 and n < 400:  # two signature polls go out before the first echo comes back
                n += 1
                if loop._ready:
                    loop.run_batch()
                else:
                    nt = loop.next_timer()
                    if nt is None:
                        break
                    loop.fire_due(nt)
            sig = ser.tx[0][1] if ser.tx else b""
            echo = b"000 " + sig.replace(b"18:000730", b"18:006402")
            ser.rx = [echo]
            tr._read_ready()
            loop.quiesce(loop.time() + 1.0)  # connection made
        else:
            loop.quiesce(1.0)
        raised = []
        for c in chunks:
            c = c.replace(SIG_ECHO + b"\r\n", echo).replace(SIG_ECHO, echo.rstrip(b"\r\n"))
            ser.rx = [c]
            try:
                tr._read_ready()
            except Exception as e:  # noqa: BLE001
                raised.append((type(e).__name__, str(e)[:160]))
            loop.settle()
        import gc

        gc.collect()
        excs = [(type(c.get("exception")).__name__, str(c.get("exception"))[:160], c.get("message")) for c in loop.exc]
        return list(got), raised, excs, list(logcap.CAP.records)
    finally:
        dispose_loop(loop)


class FakeMqttClient:
    """Stands where paho.mqtt.client.Client would: no thread, no socket."""

    def __init__(self, *a, **k):
        self.published: list = []
        self.on_connect = self.on_disconnect = self.on_message = None

    def username_pw_set(self, *a):
        pass

    def connect_async(self, *a, **k):
        pass

    def loop_start(self):
        pass

    def loop_stop(self):
        pass

    def subscribe(self, *a, **k):
        pass

    def unsubscribe(self, *a, **k):
        pass

    def disconnect(self):
        pass

    def publish(self, topic, payload=None, qos=0):
        self.published.append((topic, payload))
        return True


def mqtt_messages(lines: list[str], stamps: list[str] | None = None, use_real_protocol: bool = True):
    """Hand each line to the real MqttTransport._on_message inside a well-formed ramses_esp JSON envelope.

    Returns (messages handled, [(index, exception type, text)] raised out of the callback, loop exceptions, log records)."""
    import json

    import ramses_tx.transport as T

    loop = install_loop()
    logcap.CAP.reset()
    real_client = T.mqtt.Client
    try:
        T.mqtt.Client = FakeMqttClient
        if use_real_protocol:
            from ramses_tx.protocol import ReadProtocol

            got: list = []
            proto = ReadProtocol(got.append)
        else:
            proto = RecProtocol()
            got = proto.pkts
        tr = T.MqttTransport("mqtt://user:pw@localhost:1883/RAMSES/GATEWAY/18:123456", proto, loop=loop)

        class Msg:
            def __init__(self, topic, payload):
                self.topic, self.payload, self.timestamp = topic, payload, 0.0

        tr._on_message(None, None, Msg("RAMSES/GATEWAY/18:123456", b"online"))
        loop.settle()
        raised = []
        for k, ln in enumerate(lines):
            ts = stamps[k] if stamps else f"2024-02-29T12:05:{k // 10 % 60:02d}.{k % 10}00000+00:00"
            body = json.dumps({"msg": ln, "ts": ts}).encode()
            try:
                tr._on_message(None, None, Msg("RAMSES/GATEWAY/18:123456/rx", body))
            except Exception as e:  # noqa: BLE001
                raised.append((k, type(e).__name__, str(e)[:160]))
            loop.settle()
        import gc

        gc.collect()
        excs = [(type(c.get("exception")).__name__, str(c.get("exception"))[:160], c.get("message")) for c in loop.exc]
        return list(got), raised, excs, list(logcap.CAP.records)
    finally:
        T.mqtt.Client = real_client
        dispose_loop(loop)
