"""World `gwy`: the real ramses_rf Gateway (dispatcher, entities, protocol, QoS FSM) on the virtual loop,
bound to a harness transport that subclasses the library's own _FullTransport (real _frame_read / _pkt_read /
write_frame; only _write_frame and the clock belong to the harness).

Serves C10, C12, C13, C14, C15, C16, C18, C20.
"""

from __future__ import annotations

import datetime as _d
import gc
from collections import deque
from typing import Any, Callable

from . import logcap
from .vloop import VLoop, dispose_loop, install_clock, install_loop

GWY_ID = "18:006402"
BASE = _d.datetime(2024, 1, 1, 0, 0, 0)

_LIB: dict = {}
_ACTIVE: list = []  # worlds in existence, innermost last


def lib() -> dict:
    if not _LIB:
        import ramses_rf.entity_base as EB
        import ramses_rf.gateway as RG
        import ramses_tx.command as C
        import ramses_tx.gateway as TG
        import ramses_tx.helpers as H
        import ramses_tx.protocol as P
        import ramses_tx.protocol_fsm as F
        import ramses_tx.transport as T
        from ramses_rf import Gateway
        from ramses_tx import exceptions as exc

        _LIB.update(EB=EB, RG=RG, C=C, TG=TG, H=H, P=P, F=F, T=T, Gateway=Gateway, exc=exc)
        _LIB["real_tf"] = TG.transport_factory
        _LIB["real_uniform"] = EB.random.uniform

        class HarnessTransport(T._FullTransport):
            """The library's bidirectional transport base, with the radio replaced by the harness."""

            def __init__(self, protocol, world: "GwyWorld", gwy_id: str | None) -> None:  # noqa: D401
                # (the mixin chain's __init__ wants a serial port: set the same attributes by hand)
                self._protocol = protocol
                self._loop = world.loop
                self._extra = {"active_gwy": gwy_id, "signature": None}
                self._evofw_flag = None
                self._closing = False
                self._reading = True
                self._this_pkt = None
                self._prev_pkt = None
                self._disable_sending = False
                self._transmit_times = deque(maxlen=99)
                self.world = world
                self.gid = gwy_id

            def _dt_now(self):
                return self.world.now()

            async def _write_frame(self, frame: str) -> None:
                self.world._on_write(self, frame)

        _LIB["HarnessTransport"] = HarnessTransport
        gc.collect()
        gc.freeze()
    return _LIB


class GwyWorld:
    """One or more real Gateways on one virtual loop."""

    def __init__(self, *, strict_clock: bool = True, impersonation_alerts: bool = False) -> None:
        L = lib()
        self.loop: VLoop = install_loop()
        self._tick = 0
        self._strict = strict_clock
        self._clock_set = False
        self._offset = 0.0  # log-replay: wall clock = BASE + offset + virtual time
        world = self

        class VDT(_d.datetime):
            @classmethod
            def now(cls, tz=None):
                return world.now()

        self.vdt = VDT
        self._alerts = impersonation_alerts
        self._parent = _ACTIVE[-1] if _ACTIVE else None
        _ACTIVE.append(self)
        L["P"].DEFAULT_QOS._wait_for_reply = None
        L["T"]._global_sync_cycles.clear()
        if self._parent is None:
            logcap.CAP.reset()
        self.gwys: list = []
        self.txs: list = []
        self.written: list[tuple] = []  # (virtual time, gwy index, frame)
        self.on_write: Callable[[Any, str], None] | None = None
        self._next_gid: list[str | None] = []

        self.connect_delay = 0.0  # virtual seconds the dongle handshake takes (a real port polls its signature for up to 2 s)
        self.early_frames: list[str] = []  # frames heard half-way through that handshake (the port is already being read)

        async def factory(protocol, **kw):
            gid = self._next_gid.pop(0) if self._next_gid else GWY_ID
            tx = L["HarnessTransport"](protocol, self, gid)
            self.txs.append(tx)
            if self.connect_delay:
                self.loop.call_later(self.connect_delay, lambda: protocol.connection_made(tx, ramses=True))
                for fr in self.early_frames:
                    self.loop.call_later(self.connect_delay / 2, lambda fr=fr: tx._frame_read(self.now().isoformat(timespec="microseconds"), f"045 {fr}"))
                self.early_frames = []
            else:
                self.loop.call_soon(lambda: protocol.connection_made(tx, ramses=True))
            return tx

        self._factory = factory
        self.activate()

    def activate(self) -> None:
        """Make this world the current one: its loop is the running loop, its clock the library's clock."""
        import asyncio
        from asyncio import events

        L = lib()
        events._set_running_loop(None)
        events._set_running_loop(self.loop)
        asyncio.set_event_loop(self.loop)
        install_clock(self.vdt)
        t = lambda: (self.now() - _d.datetime(1970, 1, 1)).total_seconds()  # noqa: E731
        L["H"].timestamp = t
        L["C"].timestamp = t
        L["EB"].random.uniform = lambda a, b: (a + b) / 2
        L["P"]._DBG_DISABLE_IMPERSONATION_ALERTS = not self._alerts
        L["TG"].transport_factory = self._factory

    # -- clock
    def now(self) -> _d.datetime:
        if self._strict:
            self._tick += 1
        return BASE + _d.timedelta(seconds=self._offset + self.loop.time(), microseconds=self._tick)

    def set_time(self, dtm: _d.datetime) -> None:
        """Log replay: move the wall clock to `dtm` (never backwards)."""
        want = (dtm - BASE).total_seconds() - self.loop.time()
        if want > self._offset or not self._clock_set:
            self._offset = want
            self._clock_set = True

    # -- gateways
    def add_gateway(self, *, gwy_id: str | None = GWY_ID, config: dict | None = None, known_list=None, block_list=None, start: bool = True, cached_packets=None, **schema):
        L = lib()
        self._next_gid.append(gwy_id)
        cfg = {"disable_discovery": True, "enforce_known_list": False}
        cfg.update(config or {})
        gwy = L["Gateway"]("/dev/null", config=cfg, known_list=known_list, block_list=block_list, loop=self.loop, **schema)
        self.gwys.append(gwy)
        if start:
            task = self.loop.create_task(gwy.start(cached_packets=cached_packets))
            self.loop.quiesce(self.loop.time() + 5)
            if not task.done():
                raise RuntimeError("gateway did not start")
            task.result()
        return gwy

    def _on_write(self, tx, frame: str) -> None:
        self.written.append((self.loop.time(), self.txs.index(tx), frame))
        if self.on_write:
            self.on_write(tx, frame)

    def rx(self, frame: str, *, gi: int = 0, dtm: _d.datetime | None = None, rssi: str = "045", settle: bool = True) -> None:
        """A frame arrives at gateway gi's transport (real _frame_read -> Packet -> protocol -> dispatcher)."""
        if dtm is not None:
            self.set_time(dtm)
            stamp = dtm
        else:
            stamp = self.now()
        self.txs[gi]._frame_read(stamp.isoformat(timespec="microseconds"), f"{rssi} {frame}")
        if settle:
            self.loop.settle()

    def echo(self, tx, frame: str) -> str:
        return frame.replace("18:000730", tx.gid or "18:000730")

    def run(self, coro, horizon: float = 60.0):
        """Run a coroutine on the default schedule until done (or virtual horizon from now)."""
        task = self.loop.create_task(coro)
        self.loop.quiesce(self.loop.time() + horizon)
        if not task.done():
            task.cancel()
            self.loop.settle()
            return ("hang", None)
        if task.cancelled():
            return ("cancelled", None)
        e = task.exception()
        if e is not None:
            return ("exc", e)
        return ("ok", task.result())

    def loop_exceptions(self) -> list[tuple]:
        gc.collect()
        out = []
        for c in self.loop.exc:
            e = c.get("exception")
            origin = ""
            if e is not None and e.__traceback__ is not None:
                tb = e.__traceback__
                while tb.tb_next is not None:
                    tb = tb.tb_next
                origin = f"{tb.tb_frame.f_code.co_filename.rsplit('/', 1)[-1]}:{tb.tb_frame.f_code.co_name}"
            out.append((type(e).__name__ if e is not None else None, str(e)[:140] if e is not None else c.get("message"), origin))
        return out

    def close(self) -> None:
        L = lib()
        for gwy in self.gwys:
            for t in list(getattr(gwy, "_tasks", [])):
                t.cancel()
        dispose_loop(self.loop)
        L["TG"].transport_factory = L["real_tf"]
        L["EB"].random.uniform = L["real_uniform"]
        if self in _ACTIVE:
            _ACTIVE.remove(self)
        if _ACTIVE:
            _ACTIVE[-1].activate()  # a nested world was closed: the enclosing one is current again
