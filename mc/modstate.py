"""Module- and class-level mutable state of the library: snapshot once, put back in place before a run that must start 'alone'.

A decoder that memoises in a module-level dict (or a class attribute) makes every later decode in the same process depend on the
earlier ones - and makes an in-process 'decoded alone' baseline a lie.  `reset()` restores every dict/list/set that is a global of
a ramses_* module, or an attribute of a class defined there, to what it held when `snapshot()` was first called (contents replaced
in place, so references held elsewhere see the restored contents), and clears every functools cache.
"""

from __future__ import annotations

import functools
import sys
import types

_SNAP: list = []  # (container, saved copy)
_CACHES: list = []
_DONE = False


def _copy(v, depth: int = 4):
    """Plain dict/list/set/tuple structure copied; anything else (incl. the library's dict subclasses) kept by reference."""
    if depth == 0:
        return v
    if type(v) is dict:
        return {k: _copy(x, depth - 1) for k, x in v.items()}
    if type(v) is list:
        return [_copy(x, depth - 1) for x in v]
    if type(v) is set:
        return set(v)
    if type(v) is tuple:
        return tuple(_copy(x, depth - 1) for x in v)
    return v


def snapshot(prefix: str = "ramses_") -> int:
    global _DONE
    if _DONE:
        return len(_SNAP)
    seen: set = set()

    def take(v) -> None:
        if type(v) in (dict, list, set) and id(v) not in seen:
            seen.add(id(v))
            _SNAP.append((v, _copy(v)))

    for name, mod in list(sys.modules.items()):
        if not name.startswith(prefix) or mod is None:
            continue
        for k, v in list(vars(mod).items()):
            if k.startswith("__"):
                continue
            if isinstance(v, functools._lru_cache_wrapper):
                if v not in _CACHES:
                    _CACHES.append(v)
            elif isinstance(v, type) and getattr(v, "__module__", "").startswith(prefix):
                for ck, cv in list(vars(v).items()):
                    if not ck.startswith("__"):
                        take(cv)
                    f = getattr(cv, "__func__", cv)
                    if isinstance(f, functools._lru_cache_wrapper) and f not in _CACHES:
                        _CACHES.append(f)
            elif isinstance(v, types.FunctionType):
                if v.__dict__:
                    take(v.__dict__)
            else:
                take(v)
    _DONE = True
    return len(_SNAP)


def changed() -> list:
    """The containers that no longer hold what they held at snapshot time."""
    return [(c, s) for c, s in _SNAP if c != s]


def reset() -> int:
    """Put every snapshotted container back; clear every lru cache. -> number of containers that had changed."""
    n = 0
    for c, s in _SNAP:
        if c != s:
            n += 1
            new = _copy(s)
            if isinstance(c, dict):
                c.clear()
                c.update(new)
            elif isinstance(c, list):
                c[:] = new
            else:
                c.clear()
                c |= new
    for f in _CACHES:
        f.cache_clear()
    return n
