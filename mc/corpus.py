"""The repo's own packet logs as a corpus of real frames (read from $VERIF_REPO/tests at run time)."""

from __future__ import annotations

import glob
import os
import re
from functools import lru_cache

REPO = os.environ.get("VERIF_REPO", "/repo")
# the tests directory is data here; always read it from /repo when the scratch tree lacks it
TESTS = os.path.join(REPO, "tests") if os.path.isdir(os.path.join(REPO, "tests")) else "/repo/tests"

_LINE = re.compile(
    r"^(\d{4}-\d\d-\d\d[T ]\d\d:\d\d:\d\d\.\d{6}) (\.\.\.|---|\d{3}) (( I|RP|RQ| W) (---|\d{3}) (--:------|\d\d:\d{6}) (--:------|\d\d:\d{6}) (--:------|\d\d:\d{6}) ([0-9A-F]{4}) (\d{3}) ((?:[0-9A-F]{2})+))"
)


@lru_cache(maxsize=None)
def log_files() -> tuple[str, ...]:
    return tuple(sorted(glob.glob(os.path.join(TESTS, "**", "*.log"), recursive=True)))


def parse_line(line: str):
    """-> (dtm_iso, rssi, frame) or None."""
    m = _LINE.match(line)
    if not m:
        return None
    return m.group(1).replace(" ", "T"), m.group(2), m.group(3)


@lru_cache(maxsize=None)
def all_frames() -> tuple[tuple[str, str, str, str], ...]:
    """Every well-formed line of every log: (file, dtm, rssi, frame), in file order."""
    out = []
    for f in log_files():
        try:
            with open(f, errors="replace") as fh:
                for line in fh:
                    p = parse_line(line)
                    if p:
                        out.append((os.path.relpath(f, TESTS),) + p)
        except OSError:
            pass
    return tuple(out)


def signature(frame: str) -> tuple:
    f = frame.split()
    if frame.startswith(" "):
        pass
    verb = frame[:2]
    rest = frame[3:].split(" ")
    seqn, a0, a1, a2, code, ln = rest[0], rest[1], rest[2], rest[3], rest[4], rest[5]
    shape = (a0 != "--:------", a1 != "--:------", a2 != "--:------", a0 == a2)
    return verb, code, ln, shape, a0[:2], (a1[:2] if a1 != "--:------" else a2[:2])


@lru_cache(maxsize=None)
def distinct_frames(by: str = "signature") -> tuple[str, ...]:
    """One frame per distinct (verb, code, length, address shape, device types) signature."""
    seen: dict = {}
    for _f, _d, _r, frame in all_frames():
        k = signature(frame) if by == "signature" else frame
        if k not in seen:
            seen[k] = frame
    return tuple(seen.values())


@lru_cache(maxsize=None)
def log_lines(relpath: str) -> tuple[tuple[str, str, str], ...]:
    return tuple((d, r, fr) for f, d, r, fr in all_frames() if f == relpath)
