"""Engine E2: explicit-state breadth-first search over operation histories of real objects.

A state is identified with the history (tuple of events) that reaches it: live objects rarely copy, so every
expansion rebuilds a FRESH world by replaying the history on the real code (`build(hist)`), applies one more event
and evaluates the step oracle.  Canonical forms deduplicate states; only property-relevant fields belong in `canon`
(a too-fine canon only costs time, a too-coarse one hides behaviours).
"""

from __future__ import annotations

import collections
from typing import Any, Callable, Hashable, Iterable


class Result:
    def __init__(self) -> None:
        self.seen: dict[Hashable, tuple] = {}  # canonical state -> shortest history reaching it
        self.transitions = 0
        self.max_depth = 0
        self.violations: dict[str, dict] = {}  # key -> first (shortest: BFS) witness
        self.vcount: collections.Counter = collections.Counter()


def bfs(
    build: Callable[[tuple], Any],
    enabled: Callable[[Any], Iterable],
    step: Callable[[Any, Any], Any],
    canon: Callable[[Any], Hashable],
    oracle: Callable[[tuple, Any, Any, Any, Any], Iterable[tuple[str, str]]],
    depth: int,
    *,
    snapshot: Callable[[Any], Any] = lambda w: None,
    close: Callable[[Any], None] = lambda w: None,
    roots: Iterable[tuple] = ((),),
) -> Result:
    """Explore every history up to `depth` events.

    build(hist) -> world; enabled(world) -> events; step(world, ev) -> result; canon(world) -> hashable;
    snapshot(world) -> whatever the oracle needs from *before* the step;
    oracle(hist, ev, before, world_after, result) -> [(key, what)].
    """
    r = Result()
    frontier: collections.deque = collections.deque()
    limit: dict[tuple, int] = {}
    budget: dict[Hashable, int] = {}
    for root in roots:  # (non-initial starting states: each root is itself a history, `depth` counts from it)
        root = tuple(root)
        w0 = build(root)
        k0 = canon(w0)
        close(w0)
        if k0 not in r.seen:
            r.seen[k0] = root
            budget[k0] = depth
            frontier.append(root)
            limit[root] = len(root) + depth
    while frontier:
        h = frontier.popleft()
        r.max_depth = max(r.max_depth, len(h))
        lim = limit.pop(h) if h in limit else limit.get(None, depth)
        if len(h) >= lim:
            continue
        w = build(h)
        acts = list(enabled(w))
        close(w)
        for ev in acts:
            w = build(h)
            before = snapshot(w)
            res = step(w, ev)
            r.transitions += 1
            for key, what in oracle(h, ev, before, w, res):
                r.vcount[key] += 1
                if key not in r.violations:
                    r.violations[key] = {"what": f"after {list(h) + [ev]}: {what}", "replay": {"hist": [list(e) for e in h] + [list(ev)]}}
            k = canon(w)
            close(w)
            left = lim - len(h) - 1
            if k not in r.seen or left > budget.get(k, -1):  # (new, or reached before with fewer steps left: expand again)
                r.seen.setdefault(k, h + (ev,))
                budget[k] = left
                frontier.append(h + (ev,))
                limit[h + (ev,)] = lim
    return r
