"""A scripted evohome controller: the reference model for C12 (configuration) and C18 (schedules).

It is deliberately boring: a dict of zones / DHW / appliance, a change counter, and a per-zone list of schedule
versions.  `answer(frame)` returns the reply a conforming controller sends for a request frame (or None when a
real controller would stay silent / the code is not modelled).
"""

from __future__ import annotations

CTL = "01:145038"

_LIB: dict = {}


def _lib() -> dict:
    if not _LIB:
        from ramses_rf.system.schedule import full_sched_to_fragz, fragz_to_full_sched

        _LIB.update(to_fragz=full_sched_to_fragz, from_fragz=fragz_to_full_sched)
    return _LIB


# ---------------------------------------------------------------------------------------------------------
# schedules


def make_schedule(zone: str, version: int, size: int) -> list:
    """A valid inner schedule for `zone` that is recognisable (setpoints / times encode zone and version: no two
    (zone, version) pairs share a schedule) and needs exactly `size` (1..3) fragments on the wire."""
    hw = zone == "HW"
    per_day, variety = {1: (1, 0), 2: (2, 0), 3: ((3, 1) if hw else (2, 1))}[size]
    z = 0 if hw else int(zone, 16)
    s = (z * 7 + version * 13) % 97
    days = []
    for dow in range(7):
        sps = []
        for k in range(per_day):
            s = (s * 37 + 11) % 1009
            minute = (k * (1440 // per_day) + ((s % 12) * 5 if variety else 0) + (version * 5 if hw else 0)) % 1440
            tod = f"{minute // 60:02d}:{minute % 60:02d}"
            if hw:
                sps.append({"time_of_day": tod, "enabled": bool((k + (dow if variety else 0)) % 2)})
            else:
                sp = 5.0 + z + version / 10 + ((s % 40) / 2 if variety else 0)
                sps.append({"time_of_day": tod, "heat_setpoint": round(min(sp, 35.0), 2)})
        days.append({"day_of_week": dow, "switchpoints": sps})
    n = len(fragments(zone, days))
    if n != size:
        raise RuntimeError(f"harness: schedule {zone}/{version}/{size} needs {n} fragments")
    return days


def make_tail_schedule(zone: str, version: int, kind: str) -> list:
    """A family of short schedules (kind 'T2': 2 days x 4 switchpoints, 2 fragments; 'T3': 3 days x 5, 3 fragments) whose versions
    differ ONLY in the very last setpoint: the first fragment of the compressed blob is identical across versions."""
    ndays, npd = {"T2": (2, 4), "T3": (3, 5)}[kind]
    z = 0 if zone == "HW" else int(zone, 16)
    days = []
    for d in range(ndays):
        sps = []
        for k in range(npd):
            m = 480 + k * 90
            sps.append({"time_of_day": f"{m // 60:02d}:{m % 60:02d}", "heat_setpoint": 15.0 + (z % 4) + k})
        days.append({"day_of_week": d, "switchpoints": sps})
    days[-1]["switchpoints"][-1]["heat_setpoint"] = round(5.0 + (version % 60) * 0.5, 2)
    n = len(fragments(zone, days))
    if n != int(kind[1]):
        raise RuntimeError(f"harness: tail schedule {zone}/{version}/{kind} needs {n} fragments")
    return days


def schedule_for(zone: str, version: int, size) -> list:
    return make_tail_schedule(zone, version, size) if isinstance(size, str) else make_schedule(zone, version, size)


def fragments(zone: str, inner: list) -> list[str]:
    idx = "00" if zone == "HW" else zone
    return _lib()["to_fragz"]({"zone_idx": idx, "schedule": inner})


class SchedCtl:
    """The schedule side of a controller: per zone the history of versions, and the global change counter."""

    def __init__(self, zones: dict[str, list], ctl: str = CTL, counter: int = 8) -> None:
        """zones: {idx: [inner schedule of version 0]}; idx 'HW' for the DHW schedule; None = zone has no schedule."""
        self.ctl = ctl
        self.counter = counter
        self.versions: dict[str, list] = {z: [s] for z, s in zones.items()}
        self.cur: dict[str, int] = {z: 0 for z in zones}
        self.history: list[tuple] = []  # (event no, zone, version index) whenever a zone's current version changes
        self.partial: dict[str, dict] = {}  # zone -> {frag_num: fragment} of a write in progress
        self.events = 0
        self.served: list[tuple] = []  # (event no, zone, version, frag) for every fragment handed out
        self.counter_reads: list[tuple] = []

    # -- changes made at the controller's own UI
    def bump(self, zone: str, inner: list) -> None:
        self.versions[zone].append(inner)
        self.cur[zone] = len(self.versions[zone]) - 1
        self.counter += 1
        self.events += 1
        self.history.append((self.events, zone, self.cur[zone]))

    def current(self, zone: str):
        return self.versions[zone][self.cur[zone]]

    @staticmethod
    def _hdr(zone: str, write: bool = False) -> str:
        if zone == "HW":
            return "00230808" if write else "00230008"
        return f"{zone}200808" if write else f"{zone}200008"

    @staticmethod
    def _zone_of(payload: str) -> str:
        return "HW" if payload[2:4] == "23" else payload[:2]

    def frag_frame(self, zone: str, num: int, dst: str, verb: str = "RP") -> str | None:
        """The RP (or the same content overheard) carrying fragment `num` of the zone's current schedule."""
        inner = self.current(zone)
        if inner is None:
            pl = f"{self._hdr(zone)}00{num:02X}FF"
            return f"{verb} --- {self.ctl} {dst} --:------ 0404 007 {pl}"
        fz = fragments(zone, inner)
        if not 1 <= num <= len(fz):
            return None
        frag = fz[num - 1]
        pl = f"{self._hdr(zone)}{len(frag) // 2:02X}{num:02X}{len(fz):02X}{frag}"
        return f"{verb} --- {self.ctl} {dst} --:------ 0404 {len(pl) // 2:03d} {pl}"

    def answer(self, frame: str, gwy_id: str) -> str | None:
        f = frame.split()
        verb, dst, code, payload = f[0], f[3], f[5], f[7]
        if dst != self.ctl:
            return None
        self.events += 1
        if verb == "RQ" and code == "0006":
            self.counter_reads.append((self.events, self.counter))
            return f"RP --- {self.ctl} {gwy_id} --:------ 0006 004 0005{self.counter:04X}"
        if verb == "RQ" and code == "0404":
            zone = self._zone_of(payload)
            if zone not in self.versions:
                return None
            num = int(payload[10:12], 16)
            rp = self.frag_frame(zone, num, gwy_id)
            if rp is not None:
                self.served.append((self.events, zone, self.cur[zone], num))
            return rp
        if verb == "W" and code == "0404":
            zone = self._zone_of(payload)
            if zone not in self.versions:
                return None
            num, tot = int(payload[10:12], 16), int(payload[12:14], 16)
            part = self.partial.setdefault(zone, {})
            if part and part.get("tot") != tot:
                part.clear()
            part["tot"] = tot
            part[num] = payload[14:]
            ack_tot = tot
            if num == tot:
                if all(k in part for k in range(1, tot + 1)):
                    try:
                        full = _lib()["from_fragz"]([part[k] for k in range(1, tot + 1)])
                    except Exception:  # noqa: BLE001  (a corrupt blob is not stored)
                        full = None
                    if full is not None:
                        inner = full["schedule"]
                        if inner != self.current(zone):
                            self.versions[zone].append(inner)
                            self.cur[zone] = len(self.versions[zone]) - 1
                            self.counter += 1
                            self.history.append((self.events, zone, self.cur[zone]))
                        ack_tot = 0
                self.partial.pop(zone, None)
            pl = f"{payload[:8]}{payload[8:10]}{num:02X}{ack_tot:02X}"
            return f" I --- {self.ctl} {gwy_id} --:------ 0404 007 {pl}"
        return None


# ---------------------------------------------------------------------------------------------------------
# configuration (C12)

ZONE_CLASS = {"08": "radiator_valve", "09": "underfloor_heating", "0A": "zone_valve", "0B": "mixing_valve", "11": "electric_heat"}


def hex_id(dev_id: str) -> str:
    t, n = dev_id.split(":")
    return f"{(int(t) << 18) | int(n):06X}"


def zone_mask(idxs) -> str:
    m = 0
    for i in idxs:
        m |= 1 << int(i, 16)
    return f"{m & 0xFF:02X}{m >> 8:02X}"


class CfgCtl:
    """The configuration side of a controller.

    cfg = {"zones": {idx: {"class": "08"|"0A"|"0B"|"11", "sensor": dev_id | "CTL" | None, "acts": [dev_id...]}},
           "dhw": None | {"sensor": id|None, "dhw_valve": id|None, "htg_valve": id|None},
           "app": None | dev_id, "short_000c": bool}
    Answers as an evohome does (formats taken from the RPs in the repo's logs): RQ|0005 -> the mask of zones of a class
    (type 04/00: all zones); RQ|000C -> the devices of a role in a zone/domain, 7F-FFFFFF when there is none - also when the
    zone's sensor is the controller itself.
    """

    def __init__(self, cfg: dict, ctl: str = CTL) -> None:
        self.cfg = cfg
        self.ctl = ctl
        self.asked: list[tuple] = []  # (code, payload) of every request answered
        self.extra = True  # also answer the non-topology polls minimally (keeps the send queue short)

    def rp(self, gwy: str, code: str, pl: str) -> str:
        return f"RP --- {self.ctl} {gwy} --:------ {code} {len(pl) // 2:03d} {pl}"

    def devices(self, idx: str, role: str) -> list[str] | None:
        """Devices the controller lists for (idx, role); None = it does not answer."""
        cfg = self.cfg
        if role == "0F":
            return [cfg["app"]] if cfg.get("app") else []
        if role == "0D":
            d = cfg.get("dhw")
            return [d["sensor"]] if d and d.get("sensor") else []
        if role == "0E":
            d = cfg.get("dhw")
            k = "dhw_valve" if idx == "00" else "htg_valve"
            return [d[k]] if d and d.get(k) else []
        z = cfg["zones"].get(idx)
        if z is None:
            return []
        if role == "04":
            return [z["sensor"]] if z.get("sensor") and z["sensor"] != "CTL" else []
        if role in ("00", z["class"]):
            return list(z.get("acts", ()))
        return []

    def answer(self, frame: str, gwy: str) -> str | None:
        f = frame.split()
        verb, dst, code, payload = f[0], f[3], f[5], f[7]
        if verb == "RQ" and dst[:3] == "13:" and self.extra:  # a relay answers its own polls
            pl = {"0008": "0000", "3EF1": "00012C012CC8FF", "1100": "00180400007FFF01", "3EF0": "0000FF"}.get(code)
            return f"RP --- {dst} {gwy} --:------ {code} {len(pl) // 2:03d} {pl}" if pl else None
        if verb != "RQ" or dst != self.ctl:
            return None
        if code == "0005":
            t = payload[2:4]
            self.asked.append((code, payload))
            zones = self.cfg["zones"]
            if t in ZONE_CLASS:
                idxs = [i for i, z in zones.items() if z["class"] == t]
            elif t in ("00", "04"):
                idxs = list(zones)
            elif t == "0D":
                idxs = ["00"] if self.cfg.get("dhw") and self.cfg["dhw"].get("sensor") else []
            elif t == "0E":
                d = self.cfg.get("dhw") or {}
                idxs = [i for i, k in (("00", "dhw_valve"), ("01", "htg_valve")) if d.get(k)]
            elif t == "0F":
                idxs = ["00"] if self.cfg.get("app") else []
            else:
                idxs = []
            return self.rp(gwy, code, f"00{t}{zone_mask(idxs)}")
        if code == "000C":
            i, t = payload[:2], payload[2:4]
            self.asked.append((code, payload))
            devs = self.devices(i, t)
            if devs is None:
                return None
            if not devs:
                return self.rp(gwy, code, f"{i}{t}7FFFFFFF")
            if self.cfg.get("short_000c") and len(devs) > 1:
                return self.rp(gwy, code, f"{i}" + "".join(f"{t}00{hex_id(d)}" for d in devs))
            return self.rp(gwy, code, "".join(f"{i}{t}00{hex_id(d)}" for d in devs))
        if not self.extra:
            return None
        z = payload[:2]
        known = z in self.cfg["zones"]
        if code == "0004" and known:
            return self.rp(gwy, code, f"{z}00" + "Zone".encode().hex().upper() + f"{int(z, 16):02d}".encode().hex().upper() + "00" * 14)
        if code == "000A" and known:
            return self.rp(gwy, code, f"{z}1001F40DAC")
        if code == "2349" and known:
            return self.rp(gwy, code, f"{z}07D000FFFFFF")
        if code == "30C9" and known:
            return self.rp(gwy, code, f"{z}07D0")
        if code == "12B0" and known:
            return self.rp(gwy, code, f"{z}0000")
        if code == "0006":
            return self.rp(gwy, code, "00050008")
        if code == "1F09":
            return self.rp(gwy, code, "000708")
        if code == "2E04":
            return self.rp(gwy, code, "00FFFFFFFFFFFF00")
        if code == "313F":
            return self.rp(gwy, code, "00FC380BAA130207E6")
        if code == "1100":
            return self.rp(gwy, code, "FC180400007FFF01")
        if code == "0418":
            return self.rp(gwy, code, "000000B0000000000000000000007FFFFF7000000000")
        if code == "0100":
            return self.rp(gwy, code, "00656EFFFF")
        if code == "10E0":
            return self.rp(gwy, code, "000002FF0163FFFFFFFFD90207E0010D07DE4576" + "6F20436F6C6F72".ljust(36, "0"))
        d = self.cfg.get("dhw")
        if d and code == "10A0":
            return self.rp(gwy, code, "0013880003E8")
        if d and code == "1260":
            return self.rp(gwy, code, "001388")
        if d and code == "1F41":
            return self.rp(gwy, code, "000100FFFFFF")
        return None
