"""A scripted evohome controller: the reference model for C12 (configuration) and C18 (schedules).

It is deliberately boring: a dict of zones / DHW / appliance, a change counter, and a per-zone list of schedule
versions.  `answer(frame)` returns the reply a conforming controller sends for a request frame (or None when a
real controller would stay silent / the code is not modelled).
"""

from __future__ import annotations

CTL = "01:145038"

_LIB: dict = {}


def _lib() -> dict:
    if not _LIB:
        from ramses_rf.system.schedule import full_sched_to_fragz, fragz_to_full_sched

        _LIB.update(to_fragz=full_sched_to_fragz, from_fragz=fragz_to_full_sched)
    return _LIB


# ---------------------------------------------------------------------------------------------------------
# schedules


def make_schedule(zone: str, version: int, size: int) -> list:
    """A valid inner schedule for `zone` that is recognisable (setpoints / times encode zone and version: no two
    (zone, version) pairs share a schedule) and needs exactly `size` (1..3) fragments on the wire."""
    hw = zone == "HW"
    per_day, variety = {1: (1, 0), 2: (2, 0), 3: ((3, 1) if hw else (2, 1))}[size]
    z = 0 if hw else int(zone, 16)
    s = (z * 7 + version * 13) % 97
    days = []
    for dow in range(7):
        sps = []
        for k in range(per_day):
            s = (s * 37 + 11) % 1009
            minute = (k * (1440 // per_day) + ((s % 12) * 5 if variety else 0) + (version * 5 if hw else 0)) % 1440
            tod = f"{minute // 60:02d}:{minute % 60:02d}"
            if hw:
                sps.append({"time_of_day": tod, "enabled": bool((k + (dow if variety else 0)) % 2)})
            else:
                sp = 5.0 + z + version / 10 + ((s % 40) / 2 if variety else 0)
                sps.append({"time_of_day": tod, "heat_setpoint": round(min(sp, 35.0), 2)})
        days.append({"day_of_week": dow, "switchpoints": sps})
    n = len(fragments(zone, days))
    if n != size:
        raise RuntimeError(f"harness: schedule {zone}/{version}/{size} needs {n} fragments")
    return days


def fragments(zone: str, inner: list) -> list[str]:
    idx = "00" if zone == "HW" else zone
    return _lib()["to_fragz"]({"zone_idx": idx, "schedule": inner})


class SchedCtl:
    """The schedule side of a controller: per zone the history of versions, and the global change counter."""

    def __init__(self, zones: dict[str, list], ctl: str = CTL, counter: int = 8) -> None:
        """zones: {idx: [inner schedule of version 0]}; idx 'HW' for the DHW schedule; None = zone has no schedule."""
        self.ctl = ctl
        self.counter = counter
        self.versions: dict[str, list] = {z: [s] for z, s in zones.items()}
        self.cur: dict[str, int] = {z: 0 for z in zones}
        self.history: list[tuple] = []  # (event no, zone, version index) whenever a zone's current version changes
        self.partial: dict[str, dict] = {}  # zone -> {frag_num: fragment} of a write in progress
        self.events = 0
        self.served: list[tuple] = []  # (event no, zone, version, frag) for every fragment handed out
        self.counter_reads: list[tuple] = []

    # -- changes made at the controller's own UI
    def bump(self, zone: str, inner: list) -> None:
        self.versions[zone].append(inner)
        self.cur[zone] = len(self.versions[zone]) - 1
        self.counter += 1
        self.events += 1
        self.history.append((self.events, zone, self.cur[zone]))

    def current(self, zone: str):
        return self.versions[zone][self.cur[zone]]

    @staticmethod
    def _hdr(zone: str, write: bool = False) -> str:
        if zone == "HW":
            return "00230808" if write else "00230008"
        return f"{zone}200808" if write else f"{zone}200008"

    @staticmethod
    def _zone_of(payload: str) -> str:
        return "HW" if payload[2:4] == "23" else payload[:2]

    def frag_frame(self, zone: str, num: int, dst: str, verb: str = "RP") -> str | None:
        """The RP (or the same content overheard) carrying fragment `num` of the zone's current schedule."""
        inner = self.current(zone)
        if inner is None:
            pl = f"{self._hdr(zone)}00{num:02X}FF"
            return f"{verb} --- {self.ctl} {dst} --:------ 0404 007 {pl}"
        fz = fragments(zone, inner)
        if not 1 <= num <= len(fz):
            return None
        frag = fz[num - 1]
        pl = f"{self._hdr(zone)}{len(frag) // 2:02X}{num:02X}{len(fz):02X}{frag}"
        return f"{verb} --- {self.ctl} {dst} --:------ 0404 {len(pl) // 2:03d} {pl}"

    def answer(self, frame: str, gwy_id: str) -> str | None:
        f = frame.split()
        verb, dst, code, payload = f[0], f[3], f[5], f[7]
        if dst != self.ctl:
            return None
        self.events += 1
        if verb == "RQ" and code == "0006":
            self.counter_reads.append((self.events, self.counter))
            return f"RP --- {self.ctl} {gwy_id} --:------ 0006 004 0005{self.counter:04X}"
        if verb == "RQ" and code == "0404":
            zone = self._zone_of(payload)
            if zone not in self.versions:
                return None
            num = int(payload[10:12], 16)
            rp = self.frag_frame(zone, num, gwy_id)
            if rp is not None:
                self.served.append((self.events, zone, self.cur[zone], num))
            return rp
        if verb == "W" and code == "0404":
            zone = self._zone_of(payload)
            if zone not in self.versions:
                return None
            num, tot = int(payload[10:12], 16), int(payload[12:14], 16)
            part = self.partial.setdefault(zone, {})
            if part and part.get("tot") != tot:
                part.clear()
            part["tot"] = tot
            part[num] = payload[14:]
            ack_tot = tot
            if num == tot:
                if all(k in part for k in range(1, tot + 1)):
                    try:
                        full = _lib()["from_fragz"]([part[k] for k in range(1, tot + 1)])
                    except Exception:  # noqa: BLE001  (a corrupt blob is not stored)
                        full = None
                    if full is not None:
                        inner = full["schedule"]
                        if inner != self.current(zone):
                            self.versions[zone].append(inner)
                            self.cur[zone] = len(self.versions[zone]) - 1
                            self.counter += 1
                            self.history.append((self.events, zone, self.cur[zone]))
                        ack_tot = 0
                self.partial.pop(zone, None)
            pl = f"{payload[:8]}{payload[8:10]}{num:02X}{ack_tot:02X}"
            return f" I --- {self.ctl} {gwy_id} --:------ 0404 007 {pl}"
        return None
