"""Deviation-bounded stateless exploration of worlds whose every nondeterministic choice goes
through a Chooser (textbook iterative context/deviation bounding, CHESS-style).

An execution is a pure function of the list of indices chosen.  `run(prefix, expect)` must build a
FRESH world, replay `prefix` (verifying the menus seen against `expect`) and then always take
choice 0.  Menus are lists of (label, cost); index 0 is the default and costs 0.
"""

from __future__ import annotations

import hashlib
import json
import multiprocessing as mp
import os
import time
from collections import Counter
from typing import Any, Callable


class ReplayDivergence(Exception):
    """Harness error: the same choice prefix did not lead to the same menus."""


class Chooser:
    def __init__(self, prefix=(), expect=None) -> None:
        self.prefix = list(prefix)
        self.expect = expect  # list of menus (labels) recorded by the parent execution
        self.choices: list[int] = []
        self.menus: list[list] = []

    def choose(self, acts: list):
        """acts: [(label, cost), ...] in canonical order; returns the chosen label."""
        i = len(self.choices)
        c = self.prefix[i] if i < len(self.prefix) else 0
        if c >= len(acts):
            raise ReplayDivergence(f"choice {c} out of range at point {i}: {acts}")
        if self.expect is not None and i < len(self.expect):
            if [a[0] for a in acts] != [a[0] for a in self.expect[i]]:
                raise ReplayDivergence(
                    f"menu differs at point {i}: {acts} vs recorded {self.expect[i]}"
                )
        self.choices.append(c)
        self.menus.append(acts)
        return acts[c][0]

    @property
    def labels(self) -> list:
        return [self.menus[i][c][0] for i, c in enumerate(self.choices)]

    def cost(self) -> int:
        return sum(self.menus[i][c][1] for i, c in enumerate(self.choices))


def digest(obj: Any) -> str:
    return hashlib.sha1(
        json.dumps(obj, sort_keys=True, default=str).encode()
    ).hexdigest()[:16]


class Summary:
    """What one (sub)exploration covered. Mergeable."""

    def __init__(self) -> None:
        self.executions = 0
        self.nodes = 0  # distinct schedule prefixes visited (tree nodes)
        self.points = 0  # choice points seen in total (incl. replayed prefix)
        self.max_depth = 0
        self.outcomes: Counter = Counter()
        self.actions: Counter = Counter()  # labels of non-default actions taken
        self.violations: dict[str, dict] = {}  # key -> cheapest, shortest witness
        self.vcount: Counter = Counter()
        self.nviol = 0
        self.audited = 0
        self.samples: list = []
        self.extra: Counter = Counter()

    def add_violation(self, v: dict) -> None:
        k = v["key"]
        cur = self.violations.get(k)
        if cur is None:
            if len(self.violations) < 500:
                self.violations[k] = v
        elif (v["cost"], len(v["choices"])) < (cur["cost"], len(cur["choices"])):
            self.violations[k] = v

    def merge(self, o: "Summary") -> None:
        self.executions += o.executions
        self.nodes += o.nodes
        self.points += o.points
        self.max_depth = max(self.max_depth, o.max_depth)
        self.outcomes.update(o.outcomes)
        self.actions.update(o.actions)
        self.nviol += o.nviol
        self.vcount.update(o.vcount)
        for k, v in o.violations.items():
            self.add_violation(v)
        self.audited += o.audited
        if len(self.samples) < 6:
            self.samples.extend(o.samples[: 6 - len(self.samples)])
        self.extra.update(o.extra)


_JOB: dict = {}


def _dfs(root: tuple, D: int, audit_every: int, seed: int, shard: tuple[int, int] | None = None) -> Summary:
    """shard=(k, n): explore only the k-th of n slices of the root's children (child j belongs to slice j % n);
    the root execution itself is accounted to slice 0 only, so the merged summaries equal an unsharded run."""
    run: Callable = _JOB["run"]
    check: Callable = _JOB["check"]
    outcome: Callable = _JOB["outcome"]
    s = Summary()
    stack = [root]
    while stack:
        prefix, expect, used = stack.pop()
        ch, obs = run(prefix, expect)
        is_root = shard is not None and not prefix and used == 0 and prefix == root[0]
        if is_root and shard[0] != 0:
            j = 0
            for i in range(len(prefix), len(ch.choices)):
                for alt in range(1, len(ch.menus[i])):
                    if used + ch.menus[i][alt][1] <= D:
                        if j % shard[1] == shard[0]:
                            stack.append((ch.choices[:i] + [alt], ch.menus[: i + 1], used + ch.menus[i][alt][1]))
                        j += 1
            continue
        s.executions += 1
        s.nodes += len(ch.choices) - len(prefix) + (1 if not prefix else 0)
        s.points += len(ch.choices)
        s.max_depth = max(s.max_depth, len(ch.choices))
        od = outcome(obs)
        s.outcomes[od] += 1
        for i, c in enumerate(ch.choices):
            if c:
                lab = ch.menus[i][c][0]
                s.actions[lab[0] if isinstance(lab, (tuple, list)) else str(lab)] += 1
        viols = check(obs)
        # determinism audit
        if audit_every and (s.executions + seed) % audit_every == 0:
            ch2, obs2 = run(ch.choices, ch.menus)
            s.audited += 1
            if outcome(obs2) != od or ch2.choices != ch.choices:
                raise ReplayDivergence(
                    f"non-deterministic replay of {ch.choices}: {obs} vs {obs2}"
                )
        if len(s.samples) < 2:
            s.samples.append({"choices": [str(x) for x in ch.labels][:60], "outcome": od})
        for key, what in viols:
            s.nviol += 1
            s.vcount[key] += 1
            s.add_violation(
                {
                    "key": key,
                    "what": what,
                    "choices": list(ch.choices),
                    "labels": [str(x) for x in ch.labels],
                    "cost": ch.cost(),
                }
            )
        # executions that run into the step cap (something in the code under test polls or spins) cost thousands of steps each: once
        # 30 of them have been reported for this scenario slice the rest of its tree is left unexplored (only ever on a violating tree)
        if sum(n for k, n in s.vcount.items() if "step-cap" in k or "livelock" in k) >= 30:
            s.extra["slices_stopped_after_30_step_caps"] = s.extra.get("slices_stopped_after_30_step_caps", 0) + 1
            break
        j = 0
        for i in range(len(prefix), len(ch.choices)):
            menu = ch.menus[i]
            for alt in range(1, len(menu)):
                c = menu[alt][1]
                if used + c <= D:
                    if not is_root or j % shard[1] == shard[0]:
                        stack.append((ch.choices[:i] + [alt], ch.menus[: i + 1], used + c))
                    j += 1
    return s


def _worker(args) -> Summary:
    root, D, audit_every, seed = args
    return _dfs(root, D, audit_every, seed)


def explore(
    run: Callable,
    check: Callable,
    outcome: Callable,
    D: int,
    *,
    pool: "mp.pool.Pool | None" = None,
    audit_every: int = 50,
    seed: int = 0,
) -> Summary:
    """Explore every schedule of `run` with total deviation cost <= D.

    With a pool, the children of the default execution are sharded over the workers (which must
    have been forked AFTER set_job()).
    """
    _JOB.update(run=run, check=check, outcome=outcome)
    if pool is None:
        return _dfs(([], None, 0), D, audit_every, seed)
    raise RuntimeError("use explore_many() for pooled exploration")


def set_job(run: Callable, check: Callable, outcome: Callable) -> None:
    _JOB.update(run=run, check=check, outcome=outcome)


def rotate(items: list, seed: int) -> list:
    """VERIF_SEED only rotates enumeration order; the set explored is unchanged."""
    if not items:
        return items
    k = seed % len(items)
    return items[k:] + items[:k]


def ncpu() -> int:
    try:
        return max(1, min(16, len(os.sched_getaffinity(0))))
    except Exception:
        return max(1, min(16, os.cpu_count() or 1))


class Stopwatch:
    def __init__(self) -> None:
        self.t0 = time.time()

    def __call__(self) -> float:
        return round(time.time() - self.t0, 2)
