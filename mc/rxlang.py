"""Bounded enumeration of the language of the library's payload regexes.

The CODES_SCHEMA regexes use only literals, classes, '.', groups, alternation, anchors and bounded
repeats; their languages are enumerated structurally:
  * structural variants: the canonical choice everywhere, plus every single departure from it
    (another alternative at one alternation; another count from {min, min+1, max} at one repeat);
  * for every structural variant, the base word (first member of every class) and every word that
    differs from it in <= k class positions (each over the whole class); k = 1 by default;
  * the all-F / all-7F words of every structural variant (the wire's sentinels).
"""

from __future__ import annotations

import itertools
import re
import re._constants as C  # type: ignore[import]
import re._parser as P  # type: ignore[import]
from functools import lru_cache

HEX = "0123456789ABCDEF"
MAXREP_CAP = 6  # an unbounded repeat is explored up to min+MAXREP_CAP


class Unsupported(Exception):
    pass


# --- AST: ("lit", c) | ("cls", chars) | ("seq", [..]) | ("alt", [..]) | ("rep", lo, hi, node)


def _cls(items) -> str:
    chars = []
    neg = False
    for op, av in items:
        if op is C.NEGATE:
            neg = True
        elif op is C.LITERAL:
            chars.append(chr(av))
        elif op is C.RANGE:
            chars.extend(chr(c) for c in range(av[0], av[1] + 1))
        elif op is C.CATEGORY:
            if av is C.CATEGORY_DIGIT:
                chars.extend("0123456789")
            else:
                raise Unsupported(f"category {av}")
        else:
            raise Unsupported(f"class item {op}")
    if neg:
        chars = [c for c in HEX if c not in chars]
    # hex payloads only: keep the order of appearance, drop duplicates
    out = []
    for c in chars:
        cu = c.upper()
        if cu in HEX and cu not in out:
            out.append(cu)
    return "".join(out)


def _conv(items):
    seq = []
    for op, av in items:
        if op is C.LITERAL:
            seq.append(("lit", chr(av)))
        elif op is C.NOT_LITERAL:
            seq.append(("cls", "".join(c for c in HEX if c != chr(av))))
        elif op is C.ANY:
            seq.append(("cls", HEX))
        elif op is C.IN:
            seq.append(("cls", _cls(av)))
        elif op is C.BRANCH:
            seq.append(("alt", [_conv(list(b)) for b in av[1]]))
        elif op is C.SUBPATTERN:
            seq.append(_conv(list(av[3])))
        elif op in (C.MAX_REPEAT, C.MIN_REPEAT):
            lo, hi, sub = av
            hi = lo + MAXREP_CAP if hi is C.MAXREPEAT else hi
            seq.append(("rep", lo, hi, _conv(list(sub))))
        elif op is C.AT:
            seq.append(("at", av))
        else:
            raise Unsupported(f"op {op}")
    return ("seq", seq)


@lru_cache(maxsize=None)
def parse(regex: str):
    return _conv(list(P.parse(regex)))


def _choices(node, path=()):
    """Yield (path, kind, n_options) for every structural choice point, in document order."""
    k = node[0]
    if k == "seq":
        for i, ch in enumerate(node[1]):
            yield from _choices(ch, path + (i,))
    elif k == "alt":
        yield (path, "alt", len(node[1]))
        # only the canonical (first) branch is descended for further choice points
        yield from _choices(node[1][0], path + (("a", 0),))
    elif k == "rep":
        lo, hi = node[1], node[2]
        counts = sorted({lo, min(lo + 1, hi), hi})
        yield (path, "rep", counts)
        if (lo or 1) > 0:
            yield from _choices(node[3], path + (("r",),))


def _slots(node, sel: dict, path=()):
    """Flatten to a list of slots ('lit', c) / ('cls', chars) under structural selection `sel` {path: option}."""
    k = node[0]
    if k == "lit" or k == "cls":
        return [node]
    if k == "at":
        return []
    if k == "seq":
        out = []
        for i, ch in enumerate(node[1]):
            out.extend(_slots(ch, sel, path + (i,)))
        return out
    if k == "alt":
        j = sel.get(path, 0)
        return _slots(node[1][j], sel, path + (("a", j),) if j == 0 else path + (("a", j),))
    if k == "rep":
        lo, hi = node[1], node[2]
        n = sel.get(path, lo if lo > 0 else 0)
        one = _slots(node[3], sel, path + (("r",),))
        return one * n
    raise Unsupported(k)


def structural_variants(regex: str) -> list[list]:
    """Slot lists: the canonical structure + every single structural departure."""
    ast = parse(regex)
    pts = list(_choices(ast))
    out = [_slots(ast, {})]
    for path, kind, opt in pts:
        if kind == "alt":
            for j in range(1, opt):
                out.append(_slots(ast, {path: j}))
        else:
            for n in opt:
                sel = {path: n}
                s = _slots(ast, sel)
                if s not in out:
                    out.append(s)
    # dedup
    uniq = []
    for s in out:
        if s not in uniq:
            uniq.append(s)
    return uniq


def base_word(slots) -> str:
    return "".join(s[1] if s[0] == "lit" else (s[1][0] if s[1] else "") for s in slots)


def words(regex: str, k: int = 1, cap: int = 48, anchored_only: bool = False):
    """Every word within k class-position deviations of the base word of every structural variant (+ sentinels).
    Words are even-length hex strings of 1..cap bytes that the regex itself accepts."""
    rx = re.compile(regex)
    seen = set()

    def emit(w):
        if len(w) % 2:
            w += "0"
        if 2 <= len(w) <= cap * 2 and w not in seen and rx.match(w):
            seen.add(w)
            return w
        return None

    for slots in structural_variants(regex):
        b = base_word(slots)
        w = emit(b)
        if w:
            yield w
        cls_pos = [i for i, s in enumerate(slots) if s[0] == "cls" and len(s[1]) > 1]
        # sentinels
        for fill in ("F", "7"):
            g = list(b)
            for i in cls_pos:
                if fill in slots[i][1]:
                    g[i] = fill
            w = emit("".join(g))
            if w:
                yield w
        g = list(b)
        for n, i in enumerate(cls_pos):
            want = "7F"[n % 2]
            if want in slots[i][1]:
                g[i] = want
        w = emit("".join(g))
        if w:
            yield w
        for r in range(1, k + 1):
            for combo in itertools.combinations(cls_pos, r):
                for vals in itertools.product(*(slots[i][1] for i in combo)):
                    g = list(b)
                    for i, v in zip(combo, vals):
                        g[i] = v
                    w = emit("".join(g))
                    if w:
                        yield w


def supported(regex: str) -> bool:
    try:
        parse(regex)
        return True
    except Unsupported:
        return False
