"""Engine E3: bounded-exhaustive enumeration of inputs/configurations, sharded over processes.

A *shard function* is a module-level function f(arg) -> Tally.  Tallies merge.
"""

from __future__ import annotations

import multiprocessing as mp
from collections import Counter

from .explore import ncpu, rotate


class Tally:
    def __init__(self) -> None:
        self.n = 0  # evaluations
        self.nontrivial = 0  # distinct non-trivial cases (by the check's stated rule)
        self.by: Counter = Counter()  # per-subdomain evaluation counts
        self.viol: dict[str, dict] = {}  # key -> {what, replay, count}
        self.samples: list = []
        self.nviol = 0

    def bad(self, key: str, what: str, replay: dict) -> None:
        self.nviol += 1
        v = self.viol.get(key)
        if v is None:
            if len(self.viol) < 300:
                self.viol[key] = {"what": what, "replay": replay, "count": 1}
        else:
            v["count"] += 1

    def sample(self, s) -> None:
        if len(self.samples) < 4:
            self.samples.append(s)

    def merge(self, o: "Tally") -> None:
        self.n += o.n
        self.nontrivial += o.nontrivial
        self.by.update(o.by)
        self.nviol += o.nviol
        for k, v in o.viol.items():
            if k in self.viol:
                self.viol[k]["count"] += v["count"]
            elif len(self.viol) < 300:
                self.viol[k] = v
        for s in o.samples:
            if len(self.samples) < 8:
                self.samples.append(s)


def pmap(func, args: list, seed: int = 0, procs: int | None = None) -> Tally:
    total = Tally()
    args = rotate(list(args), seed)
    if len(args) <= 1 or (procs or ncpu()) == 1:
        for a in args:
            total.merge(func(a))
        return total
    with mp.get_context("fork").Pool(procs or ncpu()) as pool:
        for t in pool.imap_unordered(func, args, chunksize=1):
            total.merge(t)
    return total


def report(ctx, total: Tally, rule: str, exhaustive: bool = True, **extra) -> None:
    ctx.vcount = {k: v["count"] for k, v in total.viol.items()}
    for k, v in sorted(total.viol.items()):
        ctx.violation(k, v["what"], v["replay"])
    ctx.nviol_total = total.nviol
    ctx.coverage.update(
        evaluations=total.n,
        distinct_nontrivial=total.nontrivial,
        rule=rule,
        samples=total.samples[:6] or ["-"],
        by_domain=dict(total.by),
        exhaustive=exhaustive,
        **extra,
    )


def chunks(lo: int, hi: int, n: int) -> list[tuple[int, int]]:
    """Split range(lo, hi) into <= n contiguous (lo, hi) pieces."""
    size = max(1, -(-(hi - lo) // n))
    return [(a, min(a + size, hi)) for a in range(lo, hi, size)]
