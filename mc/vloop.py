"""A virtual asyncio event loop + virtual wall clock that the explorer steps by hand.

The loop is never run_forever()-ed. The explorer pops handles itself:
  * a *batch* is one real BaseEventLoop._run_once iteration: the handles that are in
    _ready when the iteration starts; callbacks scheduled during the batch run in the next one;
  * timers are fired by the explorer by moving virtual time.
Stock asyncio Task/Future/wait_for/Queue/Semaphore run unmodified on it.
"""

from __future__ import annotations

import asyncio
import datetime as _d
import gc
import heapq
from asyncio import events

EPOCH = _d.datetime(2024, 1, 1, 0, 0, 0)


class VLoop(asyncio.BaseEventLoop):
    def __init__(self) -> None:
        super().__init__()
        self._vtime = 0.0
        self.exc: list[dict] = []  # every context given to the loop exception handler
        self.dead = False
        self.set_exception_handler(self._on_exc)
        self.readers: dict = {}
        self.batches = 0
        self.coalesce = 0.0  # loop lateness: timers due within this many seconds of the earliest share its iteration
        self.batch_cost = 0.0  # virtual seconds one loop iteration takes (0: callbacks are instantaneous); with a cost, timers
        # that fall due while ready callbacks are still being worked off join the next iteration behind them, as in _run_once

    # -- what BaseEventLoop needs
    def time(self) -> float:
        return self._vtime

    def _process_events(self, ev) -> None:  # no selector
        pass

    def _write_to_self(self) -> None:
        pass

    # serial_asyncio.SerialTransport wants these
    def add_reader(self, fd, cb, *a):
        self.readers[fd] = (cb, a)

    def remove_reader(self, fd):
        return self.readers.pop(fd, None) is not None

    def add_writer(self, fd, cb, *a):
        pass

    def remove_writer(self, fd):
        return False

    def _on_exc(self, loop, ctx) -> None:
        if not self.dead:
            self.exc.append(ctx)

    # -- manual stepping
    def run_batch(self) -> int:
        """Run one loop iteration's worth of ready callbacks."""
        n = len(self._ready)
        for _ in range(n):
            h = self._ready.popleft()
            if not h._cancelled:
                h._run()
        self.batches += 1
        if self.batch_cost:
            self._vtime += self.batch_cost
        return n

    def next_timer(self) -> float | None:
        while self._scheduled and self._scheduled[0]._cancelled:
            h = heapq.heappop(self._scheduled)
            h._scheduled = False
        return self._scheduled[0]._when if self._scheduled else None

    def timers(self) -> list[float]:
        return sorted(h._when for h in self._scheduled if not h._cancelled)

    def fire_due(self, upto: float) -> int:
        """Move virtual time to `upto` and make every timer due by then ready (deadline order)."""
        self._vtime = max(self._vtime, upto)
        n = 0
        while self._scheduled and self._scheduled[0]._when <= self._vtime:
            h = heapq.heappop(self._scheduled)
            h._scheduled = False
            if not h._cancelled:
                self._ready.append(h)
                n += 1
        return n

    def settle(self, max_batches: int = 10000) -> int:
        """Run batches until nothing is ready (virtual time does not move)."""
        n = 0
        while self._ready:
            self.run_batch()
            n += 1
            if n > max_batches:
                raise RuntimeError("settle: livelock (ready queue never drains)")
        return n

    def quiesce(self, horizon: float, max_steps: int = 2_000_000) -> int:
        """Default schedule: settle, then fire the earliest timer, until `horizon`."""
        steps = 0
        while True:
            while self._ready:
                if self.batch_cost:
                    self.fire_due(self._vtime)
                self.run_batch()
                steps += 1
                if steps > max_steps:
                    raise RuntimeError("quiesce: step cap")
            t = self.next_timer()
            if t is None or t > horizon:
                return steps
            self.fire_due(t + self.coalesce)

    def quiesce_until(self, pred, horizon: float, max_steps: int = 2_000_000) -> bool:
        """Default schedule until pred() holds at a quiescent point, or `horizon`; -> pred()."""
        steps = 0
        while True:
            while self._ready:
                if self.batch_cost:
                    self.fire_due(self._vtime)
                self.run_batch()
                steps += 1
                if steps > max_steps:
                    raise RuntimeError("quiesce_until: step cap")
            if pred():
                return True
            t = self.next_timer()
            if t is None or t > horizon:
                return False
            self.fire_due(t + self.coalesce)

    def run_coro(self, coro, horizon: float = 1e9):
        """Run a coroutine to completion on the default schedule; return result / raise."""
        task = self.create_task(coro)
        self.quiesce(horizon)
        if not task.done():
            task.cancel()
            self.settle()
            raise TimeoutError("run_coro: not finished by horizon")
        return task.result()


def install_loop() -> VLoop:
    loop = VLoop()
    events._set_running_loop(None)
    events._set_running_loop(loop)
    asyncio.set_event_loop(loop)
    return loop


def dispose_loop(loop: VLoop) -> None:
    loop.dead = True
    events._set_running_loop(None)
    try:
        for h in list(loop._ready):
            h.cancel()
        loop._ready.clear()
        loop._scheduled.clear()
        if not loop.is_closed():
            loop.close()
    except Exception:
        pass


def make_clock(loop: VLoop, base: _d.datetime = EPOCH, strict: bool = True):
    """A datetime subclass whose now() follows the loop's virtual time.

    With strict=True successive calls never return the same microsecond (as a real clock at these
    call rates): equal stamps would make PriorityQueue compare Command objects, an artefact.
    """
    tick = [0]

    class VDT(_d.datetime):
        @classmethod
        def now(cls, tz=None):
            if strict:
                tick[0] += 1
            return base + _d.timedelta(seconds=loop.time(), microseconds=tick[0])

        @classmethod
        def utcnow(cls):
            return cls.now()

    return VDT


_CLOCK_MODULES = (
    "ramses_tx.protocol_fsm",
    "ramses_tx.protocol",
    "ramses_tx.packet",
    "ramses_tx.helpers",
    "ramses_tx.gateway",
    "ramses_tx.transport",
    "ramses_rf.entity_base",
    "ramses_rf.system.heat",
    "ramses_rf.system.zones",
    "ramses_rf.database",
)


def install_clock(vdt) -> None:
    import importlib
    import sys

    for name in _CLOCK_MODULES:
        m = sys.modules.get(name)
        if m is None:
            try:
                m = importlib.import_module(name)
            except Exception:
                continue
        if hasattr(m, "dt"):
            m.dt = vdt


def collect() -> None:
    gc.collect()
