"""Capture log records that carry an exception (a swallowed assert is still seen) and silence
everything else cheaply (no formatting)."""

from __future__ import annotations

import logging


class Capture(logging.Handler):
    def __init__(self) -> None:
        super().__init__(level=logging.DEBUG)
        self.records: list[tuple] = []
        self.warnings = 0

    def emit(self, record: logging.LogRecord) -> None:
        if record.exc_info and record.exc_info[0] is not None:
            et, ev, tb = record.exc_info
            origin = ""
            while tb is not None:
                origin = f"{tb.tb_frame.f_code.co_filename.rsplit('/', 1)[-1]}:{tb.tb_frame.f_code.co_name}"
                tb = tb.tb_next
            self.records.append((record.name, et.__name__, str(ev)[:200], origin))
        elif record.levelno >= logging.WARNING:
            self.warnings += 1

    def reset(self) -> None:
        self.records.clear()
        self.warnings = 0


CAP = Capture()


def install(level: int = logging.WARNING) -> Capture:
    root = logging.getLogger()
    root.handlers[:] = [CAP]
    root.setLevel(level)
    for name in ("ramses_tx", "ramses_rf", "asyncio"):
        lg = logging.getLogger(name)
        lg.handlers[:] = []
        lg.propagate = True
        lg.setLevel(level)
    logging.raiseExceptions = False
    return CAP


def silence_all() -> None:
    logging.disable(logging.CRITICAL)
