"""World `qos`: the real PortProtocol + ProtocolContext (send_cmd / QoS FSM) on the virtual loop,
bound to a harness transport whose every choice (delivery, loss, duplication, lateness, timer
coincidence, failed write, disconnect, pause, caller start) goes through the Chooser.

Serves C07, C08, C09 (and C06 drives the same objects).
"""

from __future__ import annotations

import asyncio
import gc
from typing import Any

from . import logcap
from .explore import Chooser
from .vloop import dispose_loop, install_clock, install_loop, make_clock

GWY = "18:123456"
CTL = "01:145038"
OTB = "10:067219"
W = 0.001  # loop lateness bound: callbacks/timers within 1 ms may share an iteration
EPS = 0.0001

_LIB: dict = {}


def lib() -> dict:
    if not _LIB:
        import ramses_tx.command as C
        import ramses_tx.helpers as H
        import ramses_tx.protocol as P
        import ramses_tx.protocol_fsm as F
        from ramses_tx import exceptions as exc
        from ramses_tx.command import Command
        from ramses_tx.const import Priority
        from ramses_tx.packet import Packet
        from ramses_tx.typing import QosParams

        _LIB.update(C=C, H=H, P=P, F=F, exc=exc, Command=Command, Priority=Priority, Packet=Packet, QosParams=QosParams)
        _LIB["real_lock"] = F.Lock
        gc.collect()
        gc.freeze()
    return _LIB


class DeadlockError(Exception):
    pass


class CheckedLock:
    """Stand-in for threading.Lock on the loop thread: a blocking re-acquire can never succeed."""

    instances: list = []

    def __init__(self) -> None:
        self.held = False
        CheckedLock.instances.append(self)

    def acquire(self, blocking: bool = True, timeout: float = -1) -> bool:
        if self.held:
            if blocking and timeout in (-1, None):
                raise DeadlockError("blocking acquire of a lock already held by the loop thread")
            return False
        self.held = True
        return True

    def release(self) -> None:
        if not self.held:
            raise RuntimeError("release unlocked lock")
        self.held = False

    def locked(self) -> bool:
        return self.held

    def __enter__(self):
        self.acquire()
        return self

    def __exit__(self, *a):
        self.release()


# --- command catalogue --------------------------------------------------------------------------
# name -> (builder, reply frame or None); replies are what a conforming device would send


def build_cmd(name: str):
    Command = lib()["Command"]
    if name.startswith("rq30c9_"):
        return Command.get_zone_temp(CTL, name[7:9])
    if name.startswith("w2309_"):
        return Command.set_zone_setpoint(CTL, name[6:8], 21.5)
    if name.startswith("rq3220_"):
        return Command.get_opentherm_data(OTB, int(name[7:9], 16))
    if name == "i30c9_fake":
        return Command.put_sensor_temp("03:123456", 19.5)
    if name == "rq0418_00":
        return Command.get_system_log_entry(CTL, 0)
    if name.startswith("rq0004_"):
        return Command.get_zone_name(CTL, name[7:9])
    raise KeyError(name)


def reply_for(frame: str, gwy: str = GWY) -> str | None:
    """The reply a responsive device sends for a transmitted frame (None: no reply defined)."""
    f = frame.split()
    verb, src, dst, code, payload = f[0], f[2], f[3], f[5], f[7]
    if verb == "RQ" and code == "30C9":
        return f"RP --- {dst} {gwy} --:------ 30C9 003 {payload[:2]}07D0"
    if verb == "W" and code == "2309":
        return f" I --- {dst} {gwy} --:------ 2309 003 {payload}"
    if verb == "RQ" and code == "3220":
        return f"RP --- {dst} {gwy} --:------ 3220 005 00C0{payload[4:6]}0000"
    if verb == "RQ" and code == "0418":
        return f"RP --- {dst} {gwy} --:------ 0418 022 000000B0000000000000000000007FFFFF7000000000"
    if verb == "RQ" and code == "0004":
        return f"RP --- {dst} {gwy} --:------ 0004 022 {payload[:2]}004B69746368656E20202020202020202020202020"
    return None


FOREIGN = {
    # packets from third parties with equal / near-equal headers
    "echo_other_gwy": lambda fr: fr.replace("18:000730", "18:999999"),  # someone else's identical RQ
    "rply_other_dst": lambda fr: (reply_for(fr) or "").replace(GWY, "18:999999"),  # reply to someone else
    "rply_other_ctx": lambda fr: _other_ctx(reply_for(fr)),
    "rply_other_src": lambda fr: (reply_for(fr) or "").replace(CTL, "01:999999").replace(OTB, "10:999999"),
}


# named only by the scenarios that want them (not part of the default third-party menu)
FOREIGN_EXTRA = {
    # a frame from a BLOCK-LISTED device whose payload index contradicts its addresses: the device filter drops it before it is ever
    # decoded, so the send machinery is the first to look at its header
    "blocked_bad_idx": lambda fr: " I --- 04:000001 --:------ 04:000001 30C9 003 FC07D0",
    "blocked_ok": lambda fr: " I --- 04:000001 --:------ 04:000001 30C9 003 0007D0",
}


def _other_ctx(rp: str | None) -> str:
    if not rp:
        return ""
    f = rp.split()
    pl = f[-1]
    if f[-3] == "0418":  # a stale / foreign reply carrying a real entry of another log position
        return rp[: rp.rfind(" ") + 1] + "000005B0040000000000CD17B5AE7FFFFF7000000001"
    if f[-3] == "3220":
        pl = pl[:4] + "7F" + pl[6:]
    else:
        pl = "0B" + pl[2:]
    return rp[: rp.rfind(" ") + 1] + pl


def make_wallclock(loop, kind: str):
    """What a wall clock may legitimately do, unlike the loop's monotonic clock: "coarse" = 1 ms resolution (two calls in the same
    millisecond read alike: Windows' ~1-16 ms granularity, a VM's frozen clock); "stepback" = after its first reading the clock is set
    back by an hour (end of DST for the naive local time datetime.now() returns, an NTP correction), then runs on normally."""
    import datetime as _d

    base = _d.datetime(2024, 10, 27, 2, 59, 58)
    n = [0]

    class WDT(_d.datetime):
        @classmethod
        def now(cls, tz=None):
            n[0] += 1
            if kind == "coarse":
                return base + _d.timedelta(milliseconds=int(loop.time() * 1000))
            back = 3600 if n[0] > 1 else 0
            return base + _d.timedelta(seconds=loop.time() - back, microseconds=n[0])

    return WDT


class Tx:
    """Duck-typed transport: only what PortProtocol needs."""

    def __init__(self, world: "QosWorld") -> None:
        self.w = world
        self._extra = {"active_gwy": world.gwy_id, "is_evofw3": True}
        self._closing = False

    def get_extra_info(self, name, default=None):
        return self._extra.get(name, default)

    def is_closing(self) -> bool:
        return self._closing

    def _dt_now(self):
        return self.w.vdt.now()

    async def write_frame(self, frame: str, disable_tx_limits: bool = False) -> None:
        d = self.w.params.get("write_delay")
        if d:  # a regulated transport (duty-cycle limiter, write gap) holds the frame for a while before it is written - or fails
            await asyncio.sleep(d)
        self.w.on_write(frame)


class QosWorld:
    MAXP = 3  # deviations address only the oldest MAXP pending packets

    def __init__(self, params: dict, prefix=(), expect=None) -> None:
        L = lib()
        self.params = params
        self.dev = set(params.get("dev", ()))
        self.gwy_id = params.get("gwy_id", GWY)
        self.horizon = params.get("horizon", 120.0)
        self.ch = Chooser(prefix, expect)
        self.loop = install_loop()
        self.vdt = make_clock(self.loop)
        install_clock(self.vdt)
        if params.get("wallclock"):  # the WALL clock (naive datetime.now()) as the sender's queue sees it
            L["F"].dt = make_wallclock(self.loop, params["wallclock"])
        t = lambda: 1704067200.0 + self.loop.time()  # noqa: E731
        L["H"].timestamp = t
        L["C"].timestamp = t
        L["P"].DEFAULT_QOS._wait_for_reply = None
        L["P"]._DBG_DISABLE_IMPERSONATION_ALERTS = not params.get("impersonation_alerts", True)
        CheckedLock.instances.clear()
        L["F"].Lock = CheckedLock
        logcap.CAP.reset()
        self.seq = 0
        self.writes: list[tuple] = []
        self.pending: list[dict] = []
        self.callers: list[dict] = []
        self.cmd_objs: dict = {}
        self.qos_objs: dict = {}
        self.connected = True
        self.paused = False
        self.fail_next_write = False
        self.foreign_done: set = set()
        self.deliveries: list[tuple] = []
        self.alerts: list[dict] = []
        self.msgs = 0
        self.steps = 0
        self.cap_hit = False
        self.deadlock: str | None = None
        self.proto = L["P"].PortProtocol(self._on_msg, disable_qos=params.get("qos_mode"))
        self.ctx = self.proto._context
        self.tx = Tx(self)
        self.proto.connection_made(self.tx, ramses=True)
        if params.get("exclude"):  # a block list (device ids whose packets the protocol's filter drops)
            self.proto._exclude = list(params["exclude"])
        self.loop.settle()
        orig_alert = self.proto._send_impersonation_alert

        async def alert(cmd):  # observation only: when did the mandatory notice finish?
            rec = {"frame": str(cmd), "t0": self.loop.time(), "seq0": self.nseq(), "t1": None, "seq1": None}
            self.alerts.append(rec)
            try:
                await orig_alert(cmd)
            finally:
                rec["t1"] = self.loop.time()
                rec["seq1"] = self.nseq()
                rec["batch1"] = self.loop.batches

        self.proto._send_impersonation_alert = alert

    # -- environment
    def _on_msg(self, msg) -> None:
        self.msgs += 1

    def nseq(self) -> int:
        self.seq += 1
        return self.seq

    def on_write(self, frame: str) -> None:
        L = lib()
        if self.tx._closing:
            raise L["exc"].TransportError("Transport is closing or has closed")
        if "wfail" in self.dev and self.params.get("flat"):  # explicit-state mode: no choice points inside callbacks
            a = ("w_fail",) if self.fail_next_write else ("w_ok",)
            self.fail_next_write = False
        elif "wfail" in self.dev:
            a = self.ch.choose([(("w_ok",), 0), (("w_fail",), 1)])
        else:
            a = ("w_ok",)
        if True:
            if a[0] == "w_fail":
                self.writes.append((self.nseq(), self.loop.time(), frame, "FAILED", self.loop.batches))
                raise L["exc"].TransportError("harness: write failed")
        self.writes.append((self.nseq(), self.loop.time(), frame, "ok", self.loop.batches))
        env = self.params.get("env", {})
        wire = frame.replace("18:000730", self.gwy_id)
        if env.get("echo", True):
            self.pending.append({"kind": "echo", "frame": wire, "of": frame})
        rp = reply_for(frame, self.gwy_id)
        if rp and env.get("reply", True) and frame.split()[3] not in env.get("deaf", ()):
            self.pending.append({"kind": "rply", "frame": rp, "of": frame})

    def deliver(self, p: dict) -> None:
        L = lib()
        pkt = L["Packet"].from_file(self.vdt.now().isoformat(timespec="microseconds"), "045 " + p["frame"])
        self.deliveries.append((self.nseq(), self.loop.time(), p["kind"], p["frame"]))
        self.loop.call_soon(self.proto.pkt_received, pkt)

    # -- callers
    def start_caller(self, i: int) -> None:
        L = lib()
        c = self.params["callers"][i]
        # "same_as": j -> the very Command object caller j is sending (an application re-using one object)
        cmd = self.cmd_objs[c["same_as"]] if c.get("same_as") is not None and c["same_as"] in self.cmd_objs else build_cmd(c["cmd"])
        self.cmd_objs[i] = cmd
        rec = {
            "i": i,
            "cmd": c["cmd"],
            "frame": str(cmd),
            "start_seq": self.nseq(),
            "start_t": self.loop.time(),
            "start_batch": self.loop.batches,
            "end_batch": None,
            "end_seq": None,
            "end_t": None,
            "res": None,
            "prio": c.get("prio", "DEFAULT"),
        }
        self.callers[i] = rec
        if c.get("qos_of") is not None and c["qos_of"] in self.qos_objs:  # an application re-using one QosParams object
            qos = self.qos_objs[c["qos_of"]]
        else:
            qos = L["QosParams"](
                max_retries=c.get("retries", 3), timeout=c.get("timeout", 20.0), wait_for_reply=c.get("wfr")
            )
        self.qos_objs[i] = qos
        prio = getattr(L["Priority"], c.get("prio", "DEFAULT"))

        async def caller() -> None:
            try:
                pkt = await self.proto.send_cmd(cmd, priority=prio, qos=qos)
                rec["res"] = ("pkt", str(pkt), pkt._hdr if pkt is not None else None)
            except asyncio.CancelledError:
                rec["res"] = ("cancelled",)
                rec["end_t"] = self.loop.time()
                raise
            except BaseException as e:  # noqa: BLE001
                rec["res"] = ("exc", type(e).__name__, isinstance(e, L["exc"].ProtocolError), str(e)[:120])
            rec["end_seq"] = self.nseq()
            rec["end_t"] = self.loop.time()
            rec["end_batch"] = self.loop.batches

        rec["task"] = self.loop.create_task(caller())

    # -- the action alphabet
    def enabled(self) -> list:
        loop = self.loop
        ready = bool(loop._ready)
        nt = loop.next_timer()
        now = loop.time()
        P = self.pending
        dev = self.dev
        unstarted = [i for i, c in enumerate(self.callers) if c is None]
        acts: list = []
        if ready:
            acts.append((("step",), 0))
        elif P:
            acts.append((("deliver", 0), 0))
        elif unstarted:
            acts.append((("call", unstarted[0]), 0))
        elif nt is not None and nt <= self.horizon:
            acts.append((("advance",), 0))
        else:
            return []
        for i, p in enumerate(P[: self.MAXP]):
            if "drop" in dev:
                acts.append((("drop", i), 1))
            if "dup" in dev and not p.get("dup"):
                acts.append((("dup", i), 1))
            if i > 0 and "reorder" in dev and not ready:
                acts.append((("deliver", i), 1))
            if i == 0 and ready and "ready_deliver" in dev:
                acts.append((("deliver", 0), 1))
        if P and nt is not None and not ready:
            if "late" in dev and len(P) <= self.params.get("max_held", 99):  # (state-hashing runs bound the packets held in the air)
                acts.append((("advance",), 1))
            if "jb" in dev and nt - EPS > now:
                acts.append((("jb", 0), 1))
        if ready and nt is not None and nt - now <= W and "adv_ready" in dev:
            acts.append((("advance",), 1))
        if nt is not None and "adv_late" in dev and (not ready or nt - now <= W):
            ts = loop.timers()
            if len(ts) > 1 and ts[1] - ts[0] <= W and ts[1] > ts[0]:
                acts.append((("advance_late",), 1))
        if "wfail" in dev and self.params.get("flat") and not self.fail_next_write and self.connected:
            acts.append((("arm_wfail",), 1))  # the next write will fail
        if "disc" in dev and self.connected:
            acts.append((("disc",), 1))
        if "pause" in dev and not self.paused and self.connected:
            acts.append((("pause",), 1))
        if "pause" in dev and self.paused and self.connected:  # (an MQTT gateway going offline and coming back online)
            acts.append((("resume",), 1))
        if "cancel" in dev:  # the owner of a call gives up on it (its task is cancelled) - not the send time-out, which the library runs itself
            for i, c in enumerate(self.callers):
                if c is not None and c["res"] is None and not c.get("cancelled"):
                    acts.append((("cancel", i), 1))
        if "call" in dev:
            for i in unstarted:
                if (("call", i), 0) not in acts:
                    acts.append((("call", i), 1))
        if "foreign" in dev and self.writes:
            last = self.writes[-1][2]
            for k in sorted(self.params.get("foreign_kinds") or FOREIGN):  # (state-hashing runs name the kinds: every subset x order explodes)
                if (k, last) not in self.foreign_done and (FOREIGN.get(k) or FOREIGN_EXTRA[k])(last):
                    acts.append((("foreign", k), 1))
        return acts

    def perform(self, a: tuple) -> None:
        loop = self.loop
        k = a[0]
        if k == "step":
            loop.run_batch()
        elif k == "deliver":
            self.deliver(self.pending.pop(a[1]))
        elif k == "drop":
            self.pending.pop(a[1])
        elif k == "dup":
            p = self.pending[a[1]]
            p["dup"] = True
            self.deliver(p)
        elif k == "advance":
            loop.fire_due(loop.next_timer())
        elif k == "advance_late":
            loop.fire_due(loop.next_timer() + W)
        elif k == "jb":
            loop._vtime = max(loop._vtime, loop.next_timer() - EPS)
            self.deliver(self.pending.pop(a[1]))
        elif k == "call":
            self.start_caller(a[1])
            # callers marked start="with_prev" arrive in the same instant as the one before them (a backlog building up at once)
            j = a[1] + 1
            while j < len(self.params["callers"]) and self.callers[j] is None and self.params["callers"][j].get("start") == "with_prev":
                self.start_caller(j)
                j += 1
        elif k == "disc":
            L = lib()
            self.connected = False
            self.tx._closing = True
            self.pending.clear()
            kind = self.params.get("disc_err", "transport")
            if kind == "transport":
                err = L["exc"].TransportError("harness: connection lost")
            elif kind == "serial":  # what serial_asyncio hands over after an I/O failure
                import serial

                err = serial.SerialException("harness: device reports readiness to read but returned no data")
            else:
                err = None  # clean close
            loop.call_soon(self.proto.connection_lost, err)
        elif k == "cancel":
            self.callers[a[1]]["cancelled"] = True
            self.callers[a[1]]["task"].cancel()
            self.callers[a[1]]["res"] = ("cancelled",)  # (a task cancelled before its first step never runs its own handler)
        elif k == "arm_wfail":
            self.fail_next_write = True
        elif k == "pause":
            self.paused = True
            self.proto.pause_writing()
        elif k == "resume":
            self.paused = False
            self.proto.resume_writing()
        elif k == "foreign":
            last = self.writes[-1][2]
            self.foreign_done.add((a[1], last))
            self.deliver({"kind": "foreign", "frame": (FOREIGN.get(a[1]) or FOREIGN_EXTRA[a[1]])(last)})
        else:
            raise RuntimeError(f"unknown action {a}")

    # -- one execution
    def execute(self) -> dict:
        L = lib()
        params = self.params
        n = len(params["callers"])
        self.callers = [None] * n
        if params.get("paused_at_start"):  # the transport has asked the protocol to stop writing before anybody calls
            self.paused = True
            self.proto.pause_writing()
        for i, c in enumerate(params["callers"]):
            if c.get("start", "t0") == "t0":
                self.start_caller(i)
        try:
            while True:
                self.steps += 1
                if self.steps > params.get("max_steps", 3000):
                    self.cap_hit = True
                    break
                acts = self.enabled()
                if not acts:
                    break
                a = self.ch.choose(acts)
                self.perform(a)
        except DeadlockError as e:
            self.deadlock = str(e)
        obs = self.observe()
        if params.get("probe", True) and not self.deadlock and not self.cap_hit:
            obs["probe"] = self.probe()
        gc.collect()
        obs["loop_exc"] = [self._exc_sig(c) for c in self.loop.exc]
        obs["log_exc"] = list(logcap.CAP.records)
        dispose_loop(self.loop)
        L["F"].Lock = L["real_lock"]
        return obs

    @staticmethod
    def _exc_sig(ctx: dict) -> tuple:
        e = ctx.get("exception")
        origin = ""
        if e is not None and e.__traceback__ is not None:
            tb = e.__traceback__
            while tb.tb_next is not None:
                tb = tb.tb_next
            origin = f"{tb.tb_frame.f_code.co_filename.rsplit('/', 1)[-1]}:{tb.tb_frame.f_code.co_name}"
        return (type(e).__name__ if e is not None else None, str(e)[:160] if e is not None else ctx.get("message"), origin)

    def fsm_state(self) -> dict:
        c = self.ctx
        fut = c._fut
        return {
            "state": type(c._state).__name__,
            "fut": None if fut is None else ("cancelled" if fut.cancelled() else ("done" if fut.done() else "pending")),
            "qsize": c._que.qsize(),
            "cmd": None if c._cmd is None else str(c._cmd),
            "tx": (c._cmd_tx_count, c._cmd_tx_limit),
            "mult": c._multiplier,
            "timer": c._expiry_timer is not None and not c._expiry_timer.done(),
            "lock_held": c._lock.locked(),
        }

    def observe(self) -> dict:
        obs: dict[str, Any] = {
            "writes": list(self.writes),
            "deliveries": list(self.deliveries),
            "alerts": list(self.alerts),
            "faults": sorted({str(l[0]) for l in self.ch.labels if l[0] in ("w_fail", "disc", "pause")}),
            "callers": [
                None if c is None else {k: v for k, v in c.items() if k != "task"} for c in self.callers
            ],
            "final": self.fsm_state(),
            "connected": self.connected,
            "paused": self.paused,
            "end_t": self.loop.time(),
            "timers_left": len(self.loop.timers()),
            "cap_hit": self.cap_hit,
            "deadlock": self.deadlock,
            "steps": self.steps,
            "probe": None,
        }
        return obs

    def probe(self) -> dict:
        """After the episode: a fresh command to a responsive device, default schedule, no faults."""
        L = lib()
        loop = self.loop
        if self.paused:
            self.proto.resume_writing()
            self.paused = False
        self.dev = set()
        self.params = dict(self.params, env={})
        self.pending.clear()
        cmd = L["Command"].get_zone_temp(CTL, "0A")
        res: dict = {"t0": loop.time()}

        async def go() -> None:
            try:
                pkt = await self.proto.send_cmd(cmd, qos=L["QosParams"](wait_for_reply=True, max_retries=3, timeout=20))
                res["res"] = ("pkt", str(pkt))
            except BaseException as e:  # noqa: BLE001
                res["res"] = ("exc", type(e).__name__, isinstance(e, L["exc"].ProtocolError), str(e)[:120])

        task = loop.create_task(go())
        n = 0
        try:
            while not task.done() and n < 2000:
                n += 1
                if loop._ready:
                    loop.run_batch()
                elif self.pending:
                    self.deliver(self.pending.pop(0))
                else:
                    nt = loop.next_timer()
                    if nt is None or nt > res["t0"] + 60:
                        break
                    loop.fire_due(nt)
        except DeadlockError as e:
            res["res"] = ("deadlock", str(e))
        if "res" not in res:
            res["res"] = ("hang",)
            task.cancel()
        res["dur"] = loop.time() - res["t0"]
        res["final"] = self.fsm_state()
        return res


def run(params: dict, prefix=(), expect=None):
    w = QosWorld(params, prefix, expect)
    obs = w.execute()
    return w.ch, obs


# ---------------------------------------------------------------------------------------------------------
# explicit-state search support (C09 thorough): run a label-scripted prefix, stop at the frontier, canonicalise


class Frontier(Exception):
    def __init__(self, acts) -> None:
        self.acts = acts


class ScriptChooser(Chooser):
    """Follows a script of action LABELS; raises Frontier (with the enabled menu) when the script is exhausted."""

    def __init__(self, script) -> None:
        super().__init__((), None)
        self.script = [tuple(x) for x in script]

    def choose(self, acts: list):
        i = len(self.choices)
        if i >= len(self.script):
            raise Frontier(acts)
        want = self.script[i]
        for k, (lab, _cost) in enumerate(acts):
            if tuple(lab) == want:
                self.choices.append(k)
                self.menus.append(acts)
                return lab
        raise RuntimeError(f"scripted action {want} not enabled at point {i}: {[a[0] for a in acts]}")


def _handle_sig(h) -> tuple:
    cb = getattr(h, "_callback", None)
    name = getattr(cb, "__qualname__", None) or getattr(getattr(cb, "func", None), "__qualname__", None) or type(cb).__name__
    owner = getattr(cb, "__self__", None)
    extra = ""
    if isinstance(owner, asyncio.Task):
        coro = owner.get_coro()
        fr = getattr(coro, "cr_frame", None)
        extra = f"{getattr(coro, '__qualname__', '')}@{fr.f_lasti if fr is not None else 'done'}"
    elif isinstance(owner, asyncio.Future):
        extra = "fut:" + ("cancelled" if owner.cancelled() else "done" if owner.done() else "pending")
    args = getattr(h, "_args", ()) or ()
    a = tuple(str(x)[:60] if not isinstance(x, (asyncio.Future,)) else "fut" for x in args)
    return (name, extra, a)


def canon(w: "QosWorld") -> tuple:
    """A deliberately fine canonical form of a qos world between two actions (too fine only costs time)."""
    loop = w.loop
    now = loop.time()
    ready = tuple(_handle_sig(h) for h in loop._ready if not h._cancelled)
    timers = tuple(sorted((round(h._when - now, 6), _handle_sig(h)) for h in loop._scheduled if not h._cancelled))
    fs = w.fsm_state()
    callers = tuple(
        None
        if c is None
        else (c["res"] if c["res"] is None or c["res"][0] != "pkt" else ("pkt", c["res"][1]), round(now - c["start_t"], 6) if c["end_t"] is None else "ended", bool(c.get("cancelled")), c["task"].done())
        for c in w.callers
    )
    pending = tuple((p["kind"], p["frame"], bool(p.get("dup"))) for p in w.pending)
    q = tuple(sorted((e[0], str(e[-3]), "done" if e[-1].done() else "pending") for e in list(w.ctx._que.queue)))
    return (tuple(sorted(fs.items(), key=lambda kv: kv[0])), q, ready, timers, callers, pending, w.connected, w.paused, w.fail_next_write, len(w.writes) if len(w.writes) < 12 else 12, tuple(sorted(w.foreign_done)))


def run_script(params: dict, script):
    """Build a fresh world, start its callers, follow `script` (action labels). -> (world, enabled menu | None when the episode
    has ended by itself, deadlock text | None).  The caller must dispose of the world (finish_script)."""
    L = lib()
    w = QosWorld(params)
    w.ch = ScriptChooser(script)
    n = len(params["callers"])
    w.callers = [None] * n
    if params.get("paused_at_start"):
        w.paused = True
        w.proto.pause_writing()
    for i, c in enumerate(params["callers"]):
        if c.get("start", "t0") == "t0":
            w.start_caller(i)
    acts = None
    try:
        while True:
            w.steps += 1
            if w.steps > params.get("max_steps", 3000):
                w.cap_hit = True
                break
            menu = w.enabled()
            if not menu:
                break
            a = w.ch.choose(menu)
            w.perform(a)
    except Frontier as f:
        acts = f.acts
    except DeadlockError as e:
        w.deadlock = str(e)
    return w, acts


def finish_script(w: "QosWorld", terminal: bool) -> dict:
    """Observe (with the probe when the episode has ended) and dispose."""
    L = lib()
    obs = w.observe()
    if terminal and w.params.get("probe", True) and not w.deadlock and not w.cap_hit:
        obs["probe"] = w.probe()
    gc.collect()
    obs["loop_exc"] = [w._exc_sig(c) for c in w.loop.exc]
    obs["log_exc"] = list(logcap.CAP.records)
    dispose_loop(w.loop)
    L["F"].Lock = L["real_lock"]
    return obs
