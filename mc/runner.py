"""./check <Cnn> [--tier quick|thorough] [--replay <file>]

Exit 0: the property held on everything explored (KNOWN-FINDING lines possible).
Exit 1: `VIOLATION property=<id> replay=<path>` printed for each violation not in known_findings.json.
Exit 2: harness error (HARNESS-ERROR line) - a broken check, by design loud.
"""

from __future__ import annotations

import argparse
import glob
import hashlib
import importlib
import json
import os
import subprocess
import sys
import time
import traceback

VERIF = os.path.dirname(os.path.dirname(os.path.abspath(__file__)))
REPO = os.environ.get("VERIF_REPO", "/repo")
LEVELS = ("exploration", "fault_enumeration", "model_checking", "proof", "translation_validation", "other")


class HarnessError(Exception):
    pass


class Ctx:
    def __init__(self, pid: str, tier: str, seed: int) -> None:
        self.pid = pid
        self.tier = tier
        self.seed = seed
        self.quick = tier == "quick"
        self.level = "exploration"
        self.coverage: dict = {}
        self.assumptions: list[str] = []
        self.violations: list[tuple[str, str, dict]] = []  # (key, what, replay_obj)
        self.nviol_total = 0
        self.notes: list[str] = []
        self.t0 = time.time()

    def violation(self, key: str, what: str, replay: dict) -> None:
        self.nviol_total += 1
        if len(self.violations) < 400:
            self.violations.append((key, what, replay))

    def elapsed(self) -> float:
        return time.time() - self.t0

    def log(self, *a) -> None:
        print(f"[{self.pid} {self.elapsed():7.1f}s]", *a, flush=True)


def load_findings() -> dict:
    p = os.path.join(VERIF, "known_findings.json")
    if not os.path.exists(p):
        return {"findings": [], "fixed": []}
    with open(p) as f:
        return json.load(f)


def find_module(pid: str):
    hits = glob.glob(os.path.join(VERIF, "checks", f"{pid.lower()}_*.py"))
    if len(hits) != 1:
        raise HarnessError(f"no unique check module for {pid}: {hits}")
    name = os.path.basename(hits[0])[:-3]
    return importlib.import_module(f"checks.{name}")


def validate_evidence(ev: dict) -> None:
    """Minimal structural validation mirroring EVIDENCE.schema.json (jsonschema is not in /venv);
    when python3-vt (which has jsonschema) and the schema are present, validate with those too."""
    for k in ("property_id", "tier", "seed", "level", "coverage", "wall_s"):
        if k not in ev:
            raise HarnessError(f"evidence lacks {k}")
    cov = ev["coverage"]
    if ev["level"] in ("exploration", "fault_enumeration"):
        for k in ("evaluations", "distinct_nontrivial", "rule", "samples"):
            if k not in cov:
                raise HarnessError(f"evidence coverage lacks {k}")
        if cov["evaluations"] < 1 or cov["distinct_nontrivial"] < 2 or not cov["samples"]:
            raise HarnessError("evidence coverage counts too small")
    elif ev["level"] == "model_checking":
        for k in ("states", "transitions", "traces_validated_against_impl", "samples"):
            if k not in cov:
                raise HarnessError(f"evidence coverage lacks {k}")
        if cov["states"] < 1 or cov["transitions"] < 1 or not cov["samples"]:
            raise HarnessError("evidence coverage counts too small")
    schema = "/root/.vp/EVIDENCE.schema.json"
    vt = "/usr/local/bin/python3-vt"
    if os.path.exists(schema) and os.path.exists(vt):
        code = (
            "import json,sys,jsonschema;"
            "jsonschema.validate(json.load(sys.stdin), json.load(open(sys.argv[1])))"
        )
        r = subprocess.run([vt, "-c", code, schema], input=json.dumps(ev).encode(), capture_output=True)
        if r.returncode != 0:
            raise HarnessError("evidence fails EVIDENCE.schema.json: " + r.stderr.decode()[-400:])


def write_evidence(ctx: Ctx, nviol: int, known: int) -> None:
    ev = {
        "property_id": ctx.pid,
        "tier": ctx.tier,
        "seed": ctx.seed,
        "level": ctx.level,
        "coverage": ctx.coverage,
        "assumptions": ctx.assumptions,
        "wall_s": round(ctx.elapsed(), 2),
        "violations": nviol,
        "known_findings_reproduced": known,
        "repo": REPO,
    }
    validate_evidence(ev)
    # runs against a scratch tree (mutant worktrees) must not overwrite the committed evidence
    d = os.path.join(VERIF, "evidence" if os.path.realpath(REPO) == "/repo" else ".scratch_evidence")
    os.makedirs(d, exist_ok=True)
    tmp = os.path.join(d, f".{ctx.pid}.json.tmp")
    with open(tmp, "w") as f:
        json.dump(ev, f, indent=1, sort_keys=True, default=str)
        f.write("\n")
    os.replace(tmp, os.path.join(d, f"{ctx.pid}.json"))


def main(argv=None) -> int:
    ap = argparse.ArgumentParser()
    ap.add_argument("pid")
    ap.add_argument("--tier", default=os.environ.get("VERIF_TIER", "quick"), choices=("quick", "thorough"))
    ap.add_argument("--replay")
    args = ap.parse_args(argv)
    pid = args.pid.upper()
    seed = int(os.environ.get("VERIF_SEED", "0") or 0)
    sys.path.insert(0, VERIF)
    ctx = Ctx(pid, args.tier, seed)
    try:
        mod = find_module(pid)
        ctx.level = getattr(mod, "LEVEL", "exploration")
        if args.replay:
            with open(args.replay) as f:
                obj = json.load(f)
            res = mod.replay(obj["replay"])
            if res:
                for key, what in res:
                    print(f"REPLAY-FAILS property={pid} key={key} :: {what}")
                return 1
            print(f"REPLAY-PASSES property={pid}")
            return 0
        mod.run(ctx)
        findings = [f for f in load_findings().get("findings", []) if f["property"] == pid]
        known_keys = {f["key"]: f for f in findings}
        seen_known: dict[str, int] = {}
        new: dict[str, tuple[str, dict]] = {}
        for key, what, rep in ctx.violations:
            if key in known_keys:
                seen_known[key] = seen_known.get(key, 0) + 1
            elif key not in new:
                new[key] = (what, rep)
        for key, n in seen_known.items():
            print(f"KNOWN-FINDING: property={pid} {known_keys[key]['what']} [key={key}; {n} case(s) this run]")
        vc = getattr(ctx, "vcount", {})
        if os.environ.get("VERIF_KEYS"):
            for key, what, rep in ctx.violations:
                print(f"KEY {'known' if key in known_keys else 'NEW  '} n={vc.get(key, '?')} {key} :: {what[:300]}")
        rc = 0
        nnew = 0
        unconfirmed: list[str] = []
        for key, (what, rep) in list(new.items())[:25]:
            d = os.path.join(VERIF, "replays" if os.path.realpath(REPO) == "/repo" else ".scratch_replays", pid)
            os.makedirs(d, exist_ok=True)
            h = hashlib.sha1(key.encode()).hexdigest()[:12]
            path = os.path.join(d, f"{h}.json")
            with open(path, "w") as f:
                json.dump({"property": pid, "key": key, "what": what, "replay": rep}, f, indent=1, default=str)
            # confirm from scratch - in a FRESH process (process-wide state must not leak from one replay into the next) - before alarming
            r = subprocess.run([sys.executable, "-X", "faulthandler", "-m", "mc.runner", pid, "--replay", path], capture_output=True, text=True, cwd=VERIF, timeout=3600)
            again = [ln.split(" key=", 1)[1].split(" :: ", 1)[0] for ln in r.stdout.splitlines() if ln.startswith("REPLAY-FAILS ")]
            if r.returncode not in (0, 1):
                os.unlink(path)
                raise HarnessError(f"replay of {key} crashed: {(r.stdout + r.stderr)[-300:]}")
            if key not in again:
                # found during the run but not when replayed alone in a fresh process (it depended on what the same worker had done
                # before): never reported as a VIOLATION; an error of the harness unless another violation of this run does reproduce
                os.unlink(path)
                unconfirmed.append(f"violation {key} did not reproduce on replay: {what} / {again[:5]}")
                continue
            print(f"VIOLATION property={pid} replay={path}")
            print(f"  key={key} cases={vc.get(key, '?')}\n  what={what}")
            if "labels" in rep:
                print("  schedule=" + " ".join(l for l in rep["labels"] if l != "('step',)"))
            rc = 1
            nnew += 1
        if unconfirmed and not nnew:
            raise HarnessError(unconfirmed[0])
        for u in unconfirmed:
            print(f"UNCONFIRMED (not reported): {u[:300]}")
        ctx.coverage.setdefault("violation_cases_total", ctx.nviol_total)
        write_evidence(ctx, nnew, len(seen_known))
        cov = ctx.coverage
        brief = {k: v for k, v in cov.items() if isinstance(v, (int, float, bool))}
        print(f"[{pid}] tier={ctx.tier} seed={seed} wall={ctx.elapsed():.1f}s coverage={json.dumps(brief)}")
        print(f"[{pid}] {'FAIL' if rc else 'OK'}")
        return rc
    except HarnessError as e:
        print(f"HARNESS-ERROR property={pid} {e}")
        return 2
    except Exception as e:  # noqa: BLE001
        traceback.print_exc()
        print(f"HARNESS-ERROR property={pid} {type(e).__name__}: {e}")
        return 2


if __name__ == "__main__":
    sys.exit(main())
