"""Model-checking machinery for ramses_rf (bounded exhaustive exploration of the real code)."""
