"""C05 - decoded payloads are JSON-able, deterministic, element-wise and index-consistent (E3 + E2)."""

from __future__ import annotations

import itertools
import re
import json
from datetime import datetime as dt

from mc import corpus
from mc import enum as E
from mc import logcap, modstate, rxlang

PROPERTY = "C05"
LEVEL = "exploration"

D0 = dt(2024, 1, 1, 12, 0, 0)
D1 = dt(2025, 6, 30, 23, 59, 59)
CTL = "01:145038"
ADDRS = {
    " I": [f"{CTL} --:------ {CTL}", "04:056053 --:------ 01:145038", "32:155617 --:------ 32:155617", "--:------ --:------ 12:126457", "02:044328 --:------ 02:044328", "10:067219 --:------ 10:067219"],
    "RP": [f"{CTL} 18:000730 --:------", "10:067219 18:000730 --:------", "32:155617 18:000730 --:------", "13:049798 18:000730 --:------"],
    "RQ": [f"18:000730 {CTL} --:------", "18:000730 10:067219 --:------", "01:145038 13:049798 --:------"],
    " W": [f"18:000730 {CTL} --:------", "37:155617 32:155617 --:------"],
}
RATIO_KEYS = {
    "air_quality", "battery_level", "bypass_position", "demand", "exhaust_fan_speed", "supply_fan_speed", "heat_demand", "relay_demand",
    "indoor_humidity", "outdoor_humidity", "modulation_level", "rel_modulation_level", "max_rel_modulation", "percent_remaining", "percentage", "vent_demand", "post_heat", "pre_heat", "fan_rate",
    "percent_2", "percent_4", "percent_6",
}  # fmt: skip
TEMP_KEYS = {
    "temperature", "setpoint", "dewpoint_temp", "max_temp", "min_temp", "outdoor_temp", "indoor_temp", "exhaust_temp", "supply_temp",
    "setpoint_now", "setpoint_next", "boiler_output_temp", "boiler_return_temp", "dhw_temp", "boiler_setpoint",
}  # fmt: skip
# payloads with a meaning of their own that a <= k-deviation neighbourhood of the canonical words does not reach
_NULL_0418 = "B0000000000000000000007FFFFF7000000000"
SPECIAL = {
    "0418": [f"0000{i}{_NULL_0418}" for i in ("00", "01", "05", "3F")] + [f"00C0{i}{_NULL_0418}" for i in ("00", "05")],
    "0004": [f"{z}00" + "7F" * 20 for z in ("00", "05", "0B")],
    "1F09": ["FF0000", "00FFFF", "F80000"],
    "0404": ["00230008000 1FF".replace(" ", ""), "012000080001FF"],
    "3220": ["00C0050000", "0070050000", "00F0050000", "0040110000", "0040116400", "00C0116500", "0040117F00", "00C011FF00", "00C00E6400", "00400E6500", "0040733200", "00C0736500"],
    "2349": ["0007D000FFFFFF", "007FFF00FFFFFF", "0007D0040000001E0A0C0207E8"],
    "313F": ["00FC0000001D0207E8"],
}
IDX_RULE = {"zone_idx": "p0", "domain_id": "p0", "dhw_idx": "p0", "ufh_idx": "p0", "other_idx": "p0", "hvac_id": "p0", "log_idx": "p4", "msg_id": "i4"}
ARRAY_CODES = {"0009": 3, "000A": 6, "2309": 3, "30C9": 3, "2249": 7, "22C9": 6, "3150": 2}


_CACHES: list = []


def clear_caches() -> None:
    import functools
    import sys

    if not _CACHES:
        for name, mod in list(sys.modules.items()):
            if name.startswith("ramses_"):
                for v in vars(mod).values():
                    if isinstance(v, functools._lru_cache_wrapper) and v not in _CACHES:
                        _CACHES.append(v)
    for c in _CACHES:
        c.cache_clear()


class _Later(dt):
    @classmethod
    def now(cls, tz=None):
        return D1


def with_clock_moved(fn):
    """Run fn() with every library module's `dt` (and time.time) a year and a half on."""
    import sys
    import time as _t

    saved = []
    for name, mod in list(sys.modules.items()):
        if name.startswith("ramses_") and getattr(mod, "dt", None) is dt:
            saved.append(mod)
            mod.dt = _Later
    real = _t.time
    _t.time = lambda: real() + 47_000_000
    try:
        return fn()
    finally:
        _t.time = real
        for mod in saved:
            mod.dt = dt


def decode(frame: str, dtm=D0):
    """-> ('ok', payload) | ('invalid', None) | ('raises', name)"""
    from ramses_tx import exceptions as exc
    from ramses_tx.message import Message
    from ramses_tx.packet import Packet

    try:
        m = Message(Packet(dtm, "045 " + frame))
        return "ok", m.payload, m
    except exc.PacketInvalid:
        return "invalid", None, None
    except Exception as e:  # noqa: BLE001
        return "raises", type(e).__name__, None


def _ot_is_percentage(msg_id) -> bool:
    from ramses_tx import opentherm as ot

    try:
        return ot.OPENTHERM_MESSAGES[int(msg_id)].get(ot.SENSOR) == ot.Sensor.PERCENTAGE
    except (KeyError, TypeError, ValueError):
        return False


def check_payload(t: E.Tally, frame: str, p, msg, deep: bool = True) -> None:
    rep = {"frame": frame}
    code = frame.split()[-3]
    pl = frame.split()[-1]
    # (a) plain JSON data
    try:
        s = json.dumps(p)
        if json.loads(s) != json.loads(json.dumps(json.loads(s))):
            raise ValueError("unstable")
    except (TypeError, ValueError) as e:
        t.bad(f"C05:not-json:{code}", f"{frame!r} -> {p!r}: {e}", rep)
        return
    # (c) index consistency + (d) ranges
    items = p if isinstance(p, list) else [p]
    n = len(items)
    for i, it in enumerate(items):
        if not isinstance(it, dict):
            continue
        if isinstance(p, list) and n and len(pl) % n == 0:
            seg = pl[i * (len(pl) // n) : (i + 1) * (len(pl) // n)]
        else:
            seg = pl
        for k, v in it.items():
            rule = IDX_RULE.get(k)
            if rule and code not in ("0005", "000C", "1FC9", "0404", "2411", "3220" if k != "msg_id" else ""):
                want = {"p0": seg[:2], "p4": seg[4:6], "i4": int(seg[4:6], 16) if len(seg) >= 6 else None}[rule]
                if v != want and not (v == "HW" and want in ("FA", "00")):
                    t.bad(f"C05:index-not-from-frame:{code}:{k}", f"{frame!r} reports {k}={v!r}, the frame carries {want!r}", rep)
            if code == "3220" and k == "value" and _ot_is_percentage(it.get("msg_id")) and v is not None and not isinstance(v, (str, bool, list)):
                if not (0 <= v <= 1):
                    t.bad(f"C05:ratio-out-of-range:3220:{it.get('msg_name')}", f"{frame!r} -> {it.get('msg_name')} value={v} (an OpenTherm percentage, reported as a ratio)", rep)
            if k in RATIO_KEYS and v is not None and not isinstance(v, (str, bool)):
                if not (0 <= v <= 1):
                    t.bad(f"C05:ratio-out-of-range:{code}:{k}", f"{frame!r} -> {k}={v}", rep)
            if k in TEMP_KEYS and v is not None and not isinstance(v, (str, bool)):
                if not (-273.15 <= v <= 327.67):
                    t.bad(f"C05:temperature-out-of-range:{code}:{k}", f"{frame!r} -> {k}={v}", rep)
    # (b) deterministic: again, with the clock a year on, and after clearing every lru cache
    for how, fn in (("again", lambda: decode(frame)),) if not deep else (("again", lambda: decode(frame)), ("clock+1y", lambda: with_clock_moved(lambda: decode(frame))), ("caches-cleared", lambda: (clear_caches(), decode(frame))[1])):
        r = fn()
        if r[0] != "ok" or r[1] != p:
            t.bad(f"C05:not-deterministic:{how}:{code}", f"{frame!r}: first {p!r}, {how}: {r[:2]!r}", rep)
            break


def shard_words(arg) -> E.Tally:
    i, n, quick = arg
    from ramses_tx.ramses import CODES_SCHEMA

    logcap.silence_all()
    t = E.Tally()
    j = 0
    for code, d in sorted(CODES_SCHEMA.items()):
        for verb, rx in sorted(d.items()):
            if verb not in ADDRS:
                continue
            j += 1
            if j % n != i:
                continue
            ncls = max(sum(1 for s in sl if s[0] == "cls" and len(s[1]) > 1) for sl in rxlang.structural_variants(rx))
            k = 2 if ncls <= (6 if quick else 8) else 1
            addrs = ADDRS[verb][: 3 if quick else None]
            special = [w for w in SPECIAL.get(code, ()) if re.match(rx, w)]
            for w in itertools.chain(rxlang.words(rx, k=k), special):
                for ai, a in enumerate(addrs):
                    frame = f"{verb} --- {a} {code} {len(w) // 2:03d} {w}"
                    t.n += 1
                    st, p, m = decode(frame)
                    if st == "raises":
                        t.bad(f"C05:decode-raises:{p}:{code}", f"{frame!r} raised {p}", {"frame": frame})
                    elif st == "ok":
                        t.nontrivial += 1
                        t.by[f"decoded"] += 1
                        check_payload(t, frame, p, m, deep=(ai == 0))
                        if t.nontrivial % 3001 == 0:
                            t.sample({"frame": frame, "payload": p})
    return t


# --- arrays: array == list of what each element decodes to on its own -------------------------------
def elements(code: str) -> list[str]:
    idxs = ["00", "01", "02", "0B"]
    vals = {"3": ["0000", "07D0", "7FFF", "7EFF", "8000", "FFFF"], "2": ["00", "64", "C8", "FF"]}
    L = ARRAY_CODES[code]
    out = []
    if code in ("2309", "30C9"):
        out = [i + v for i in idxs for v in vals["3"]]
    elif code == "0009":
        out = [i + v for i in ["00", "01", "F9", "FC"] for v in ("00FF", "01FF", "0000")]
    elif code == "000A":
        out = [i + f + "01F40DAC" for i in idxs for f in ("00", "10", "13")] + [i + "10" + "7FFF7FFF" for i in idxs[:2]]
    elif code == "3150":
        out = [i + v for i in idxs + ["FC"] for v in vals["2"][:3]]  # (a UFC reports its circuits and the FC domain in one array)
    elif code == "22C9":
        out = [i + b + s for i in idxs for b in ("01F40A28", "03200BB8") for s in ("01", "02")]  # (both mode bytes the regex allows)
    elif code == "2249":
        out = [i + "7EFF7EFFFFFF" for i in idxs[:2]] + [i + "07D007D0003C" for i in idxs[:2]]
    assert all(len(e) == 2 * L for e in out), (code, out[:2])
    return out


ARRAY_SRC = {"0009": CTL, "000A": CTL, "2309": CTL, "30C9": CTL, "2249": "23:100224", "22C9": "02:044328", "3150": "02:044328"}


def shard_arrays(arg) -> E.Tally:
    i, n, quick = arg
    logcap.silence_all()
    t = E.Tally()
    j = 0
    for code in sorted(ARRAY_CODES):
        src = ARRAY_SRC[code]
        els = elements(code)
        single = {}
        for e in els:
            fr = f" I --- {src} --:------ {src} {code} {len(e) // 2:03d} {e}"
            st, p, _ = decode(fr)
            single[e] = (st, p[0] if isinstance(p, list) and len(p) == 1 else p)
        arrays = []
        for ln in (1, 2, 3):
            arrays += [list(c) for c in itertools.product(els, repeat=ln)] if (ln < 3 or not quick) else [list(c) for c in itertools.product(els[::2], repeat=3)]
        base = els[: 8]
        for ln in range(4, 9):
            b = (base * 2)[:ln]
            arrays.append(b)
            for pos in range(ln):
                for e in els:
                    if e != b[pos]:
                        arrays.append(b[:pos] + [e] + b[pos + 1 :])
        for arr in arrays:
            j += 1
            if j % n != i:
                continue
            t.n += 1
            pl = "".join(arr)
            if len(pl) > 96:
                continue
            fr = f" I --- {src} --:------ {src} {code} {len(pl) // 2:03d} {pl}"
            st, p, _ = decode(fr)
            want_ok = all(single[e][0] == "ok" for e in arr)
            rep = {"frame": fr}
            if st == "raises":
                t.bad(f"C05:array-decode-raises:{p}:{code}", f"{fr!r}", rep)
                continue
            if st != "ok":
                continue
            t.nontrivial += 1
            if len(arr) == 1:
                continue
            if not isinstance(p, list) or len(p) != len(arr):
                if want_ok:
                    t.bad(f"C05:array-not-elementwise:{code}:length", f"{fr!r}: {len(arr)} elements decode to {p!r}"[:300], rep)
                continue
            for pos, (e, got) in enumerate(zip(arr, p)):
                st1, want = single[e]
                if st1 != "ok" or not isinstance(want, dict):
                    continue
                diff = {k: (got.get(k), v) for k, v in want.items() if got.get(k, "<absent>") != v}
                if diff:
                    t.bad(f"C05:array-not-elementwise:{code}:{sorted(diff)[0]}", f"{fr!r}: element {pos} ({e}) decodes to {got!r}, on its own to {want!r}"[:300], rep)
                    break
    t.by["arrays"] = t.n
    return t


# --- order independence: decode(B) after decode(A) == decode(B) alone --------------------------------
def representatives(limit: int) -> list[str]:
    seen = {}
    for fr in corpus.distinct_frames():
        f = fr.split()
        key = (fr[:2], f[-3], len(f[-1]) > 6)
        seen.setdefault(key, fr)
    out = list(seen.values())
    # a few with numeric seqn / repeated contexts (what memoised fields would trip over)
    out += [
        " I 045 04:029362 --:------ 01:158182 3150 002 0364",
        " I --- 04:029363 --:------ 01:158182 3150 002 0364",
        " I 018 --:------ --:------ 39:159057 22F1 003 000204",
        " I --- 21:039407 28:126495 --:------ 22F1 003 000407",
        " I --- 01:145038 --:------ 01:145038 30C9 009 0007D00107D10008FC",
        "RP --- 01:145038 18:000730 --:------ 30C9 003 0007D0",
    ]
    return out[:limit]


def _frozen(res):
    """A deep, comparable snapshot of a decode result."""
    try:
        return (res[0], json.loads(json.dumps(res[1], default=repr)))
    except Exception:  # noqa: BLE001
        return (res[0], repr(res[1]))


def fresh() -> None:
    """Every lru cache cleared and every module-/class-level container of the library put back to what it held before the first
    decode of this run (the snapshot is taken in the parent, before the workers fork)."""
    import ramses_rf  # noqa: F401
    from ramses_tx import message, parsers  # noqa: F401

    modstate.snapshot()
    modstate.reset()


def shard_order(arg) -> E.Tally:
    i, n, limit, triples = arg
    logcap.silence_all()
    t = E.Tally()
    reps = representatives(limit)
    alone = {}
    for fr in reps:
        fresh()
        alone[fr] = _frozen(decode(fr)[:2])  # (a snapshot: a decoder that hands out a shared object would otherwise change it under us)
    # the first packet of a pair also in a numbered-sequence form (sequence numbers are what memoised / shared results trip over)
    firsts = reps + [fr[:3] + "045" + fr[6:] for fr in reps if fr[3:6] == "---"]
    j = 0
    for a in firsts:
        j += 1
        if j % n != i:
            continue
        for b in reps:
            t.n += 1
            fresh()
            decode(a)
            got = _frozen(decode(b)[:2])
            if got != alone[b]:
                t.bad(f"C05:depends-on-earlier-packet:{b.split()[-3]}", f"decode({b!r}) after decode({a!r}) (and the packets decoded before it in this worker) = {got!r}, alone = {alone[b]!r}"[:400], {"a": a, "b": b, "shard": [i, n, limit, triples]})
            t.nontrivial += 1
        if triples:
            sub = reps[:: max(1, len(reps) // 40)]
            for b in sub:
                for c in sub:
                    t.n += 1
                    fresh()
                    decode(a)
                    decode(b)
                    got = _frozen(decode(c)[:2])
                    if got != alone[c]:
                        t.bad(f"C05:depends-on-earlier-packet:{c.split()[-3]}", f"decode({c!r}) after {a!r}, {b!r} = {got!r}, alone = {alone[c]!r}"[:400], {"a": a, "b": c, "shard": [i, n, limit, triples]})
    # a long session in between: packets of 600 other devices (more than any bounded cache of addresses / address sets holds), then the
    # same packet again
    flood = [f" I --- 04:{100000 + k:06d} --:------ 01:{200000 + k:06d} 30C9 003 0007D0" for k in range(600)]
    for j, b in enumerate(reps):
        if j % n != i:
            continue
        t.n += 1
        fresh()
        first = _frozen(decode(b)[:2])
        for f in flood:
            decode(f)
        again = _frozen(decode(b)[:2])
        if again != first or first != alone[b]:
            t.bad(f"C05:depends-on-earlier-packet:{b.split()[-3]}:long-session", f"decode({b!r}) = {first!r}; after 600 packets of other devices = {again!r}; alone = {alone[b]!r}"[:400], {"a": "flood", "b": b, "shard": [i, n, limit, triples]})
    t.by["ordered_pairs"] = t.n
    return t


_PRISTINE = r"""
import json, sys
sys.path.insert(0, {verif!r})
from checks import c05_payloads as C
from mc import logcap
logcap.silence_all()
reps = json.load(open(sys.argv[1]))
flood = [f" I --- 04:{{100000 + k:06d}} --:------ 01:{{200000 + k:06d}} 30C9 003 0007D0" for k in range(700)]
first = [C._frozen(C.decode(fr)[:2]) for fr in reps]
for f in flood:
    C.decode(f)
again = [C._frozen(C.decode(fr)[:2]) for fr in reps]
json.dump([first, again], sys.stdout)
"""


def shard_pristine(arg) -> E.Tally:
    """A process of its own, in the state the library is in when it has just been imported (no cache is ever cleared, nothing reset):
    every representative packet is decoded, then the packets of 700 other devices, then every representative again. The in-worker runs
    above clear the caches before each case, which also clears whatever the library put into them while it was being imported."""
    import os
    import subprocess
    import sys
    import tempfile

    limit = arg
    t = E.Tally()
    reps = representatives(limit) + [" I --- 04:189076 63:262142 --:------ 1FC9 006 0030C912E294", " I --- 29:158183 63:262142 --:------ 1FC9 012 0022F17669E7001FC97669E7"]
    fd, path = tempfile.mkstemp(prefix="verif_c05_", suffix=".json")
    try:
        with os.fdopen(fd, "w") as f:
            json.dump(reps, f)
        here = os.path.dirname(os.path.dirname(os.path.abspath(__file__)))
        r = subprocess.run([sys.executable, "-c", _PRISTINE.format(verif=here), path], capture_output=True, text=True, timeout=600, env=dict(os.environ))
    finally:
        os.unlink(path)
    if r.returncode != 0:
        raise RuntimeError(f"pristine decode process failed: {r.stderr[-400:]}")
    first, again = json.loads(r.stdout)
    logcap.silence_all()
    for fr, a, b in zip(reps, first, again):
        t.n += 1
        t.nontrivial += 1
        fresh()
        alone = json.loads(json.dumps(_frozen(decode(fr)[:2])))
        if a != b:
            t.bad(f"C05:depends-on-earlier-packet:{fr.split()[-3]}:long-session", f"decode({fr!r}) in a freshly started process = {a!r}; again after 700 packets of other devices = {b!r}"[:400], {"pristine": limit})
        elif a != alone:
            t.bad(f"C05:depends-on-earlier-packet:{fr.split()[-3]}:caches-cleared", f"decode({fr!r}) in a freshly started process = {a!r}; with every cache cleared first = {alone!r}"[:400], {"pristine": limit})
    t.by["pristine_process_decodes"] = 2 * len(reps)
    return t


def shard_order_same_code(arg) -> E.Tally:
    """Within one verb/code: every ordered pair over (address shape x payload) - a decoder that memoises on part of the frame
    (a payload byte, a sequence number, the source) would hand the second packet what it worked out for the first."""
    i, n, quick = arg
    from ramses_tx.ramses import CODES_SCHEMA

    logcap.silence_all()
    t = E.Tally()
    seen: dict = {}
    for fr in corpus.distinct_frames():
        f = fr.split()
        seen.setdefault((fr[:2], f[-3]), []).append((" ".join(f[-6:-3]), f[-1]))
    j = 0
    na, npl = (3, 3) if quick else (5, 4)
    for code, d in sorted(CODES_SCHEMA.items()):
        for verb, rx in sorted(d.items()):
            if verb not in ADDRS:
                continue
            j += 1
            if j % n != i:
                continue
            logs = seen.get((verb, code), [])
            addrs, pls = [], []
            for a, w in logs:
                if tuple(x[:2] for x in a.split()) not in {tuple(x[:2] for x in y.split()) for y in addrs}:
                    addrs.append(a)
                if w not in pls:
                    pls.append(w)
            addrs = (ADDRS[verb] + addrs)[: na + 3]
            words = [w for w in itertools.islice(rxlang.words(rx, k=1), npl)]
            pls = pls[:npl] + [w for w in words if w not in pls[:npl]][:npl]
            frames = [f"{verb} {sq} {a} {code} {len(w) // 2:03d} {w}" for a in addrs for w in pls for sq in ("---",)]
            alone = {}
            for fr in frames:
                fresh()
                alone[fr] = _frozen(decode(fr)[:2])
            frames = [fr for fr in frames if alone[fr][0] == "ok"]
            for a in frames:
                for b in frames:
                    if a == b:
                        continue
                    t.n += 1
                    t.nontrivial += 1
                    got = _frozen(decode(b)[:2]) if (fresh(), decode(a)) else None
                    if got != alone[b]:
                        t.bad(f"C05:depends-on-earlier-packet:{code}", f"decode({b!r}) after decode({a!r}) = {got!r}, alone = {alone[b]!r}"[:400], {"a": a, "b": b})
                        break
    t.by["ordered_pairs_same_code"] = t.n
    return t


def _dispatch(job) -> E.Tally:
    return globals()[job[0]](job[1])


def run(ctx) -> None:
    q = ctx.quick
    import ramses_rf  # noqa: F401  (everything imported, nothing decoded yet)
    from ramses_tx import message, parsers  # noqa: F401

    ctx.coverage["module_level_containers_reset_between_runs"] = modstate.snapshot()
    jobs = [("shard_words", (i, 48, q)) for i in range(48)]
    jobs += [("shard_arrays", (i, 16, q)) for i in range(16)]
    jobs += [("shard_order", (i, 16, 300 if q else 1500, not q)) for i in range(16)]
    jobs += [("shard_pristine", 300 if q else 1500)]
    jobs += [("shard_order_same_code", (i, 16, q)) for i in range(16)]
    total = E.pmap(_dispatch, jobs, ctx.seed)
    E.report(
        ctx,
        total,
        rule="regex-language words of all 240 verb/code regexes (structural variants x <=1 class deviation, <=2 where the payload has few class positions, + "
        "sentinels) under several address shapes: JSON round trip, same result again / a year later / after clearing every lru cache, reported index = "
        "frame bytes, ratios in 0..1, temperatures in wire range; all arrays of length 1..3 over an element domain and all 1-element deviations of "
        "lengths 4..8 for the 7 array codes: array == [element alone]; all ordered pairs of representative packets (one per verb/code/shape of the logs; the first of a pair also with a numeric sequence number): "
        "decode(B) after decode(A) == decode(B) alone; and, within each verb/code, all ordered pairs over (address shapes of the logs + the standard ones) x (payloads of the logs + regex words). non-trivial = packets that decode",
        exhaustive=True,
    )
    ctx.assumptions += ["index rule: zone/domain/dhw/ufh/hvac idx = first payload byte (of the element), log_idx / msg_id = third byte; 0005/000C/0404/1FC9/2411 indexes are not compared"]


def replay(rep: dict):
    logcap.silence_all()
    t = E.Tally()
    if "pristine" in rep:
        t.merge(shard_pristine(rep["pristine"]))
    elif "a" in rep:
        fresh()
        alone = _frozen(decode(rep["b"])[:2])
        fresh()
        decode(rep["a"])
        got = _frozen(decode(rep["b"])[:2])
        if got != alone:
            t.bad(f"C05:depends-on-earlier-packet:{rep['b'].split()[-3]}", f"{got!r} vs {alone!r}", rep)
        elif "shard" in rep:
            # state shared between decodes (a module-level object) may have been polluted by an EARLIER first packet of the same
            # worker: re-run that worker's whole (deterministic) sequence in this fresh process
            t.merge(shard_order(tuple(rep["shard"])))
    else:
        fr = rep["frame"]
        st, p, m = decode(fr)
        if st == "raises":
            t.bad(f"C05:decode-raises:{p}:{fr.split()[-3]}", fr, rep)
        elif st == "ok":
            check_payload(t, fr, p, m)
            code = fr.split()[-3]
            if code in ARRAY_CODES:
                for i in range(16):
                    t.merge(shard_arrays((i, 16, True)))
    return [(k, v["what"]) for k, v in t.viol.items()]
