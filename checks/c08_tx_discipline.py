"""C08 - transmission discipline: exact retry budget, one in flight, priority then FIFO (E1)."""

from __future__ import annotations

import itertools

from checks import qos_common as QC
from checks.qos_common import ENV, caller

PROPERTY = "C08"
LEVEL = "model_checking"

PRIOS = ("HIGH", "DEFAULT", "LOW")


def scenarios(quick: bool) -> list[tuple[dict, int]]:
    sc: list[tuple[dict, int]] = []
    loss = ("drop", "late", "jb", "adv_late", "adv_ready", "dup", "reorder")
    # retry budget and back-off: every loss pattern over the attempts of one command
    for retries in range(0, 6):
        for to in (0.4999, 0.5001, 1.5001, 3.4999, 3.5001, 7.4999, 7.5001, 20.0):
            for wfr in (True, False):
                p = {"qos_mode": False, "callers": [caller("rq30c9_01", wfr=wfr, retries=retries, timeout=to)], "dev": ("drop",), "probe": False}
                sc.append((p, 4 if quick else 8))  # 2 packets per attempt x 4 attempts: D=8 is every loss pattern
    for retries in (0, 1, 3, 5):
        for to in (0.5001, 7.5001, 20.0):
            p = {"qos_mode": False, "callers": [caller("rq30c9_01", retries=retries, timeout=to)], "dev": loss, "probe": False}
            sc.append((p, 2))
    # nothing ever comes back (deaf air): exact count and exact doubling
    for retries in range(0, 6):
        for to in (0.25, 0.5001, 1.5001, 3.5001, 7.5001, 20.0, 30.0):
            for mode in (False, None, True):
                p = {"qos_mode": mode, "callers": [caller("rq30c9_01", retries=retries, timeout=to)], "env": {"echo": False, "reply": False}, "dev": (), "probe": False}
                sc.append((p, 0))
    # two commands with different budgets queued together, nothing comes back: each gets exactly its own budget
    for ra in range(0, 6):
        for rb in range(0, 6):
            for pa, pb in (("DEFAULT", "DEFAULT"), ("LOW", "HIGH")):
                p = {
                    "qos_mode": False,
                    "callers": [caller("rq30c9_01", retries=ra, prio=pa), caller("rq30c9_02", retries=rb, prio=pb)],
                    "env": {"echo": False, "reply": False},
                    "dev": (),
                    "probe": False,
                }
                sc.append((p, 0))
    for ra, rb in ((3, 0), (0, 3), (1, 5), (5, 1)):
        p = {"qos_mode": False, "callers": [caller("rq30c9_01", retries=ra), caller("rq30c9_02", retries=rb), caller("w2309_03", retries=ra)], "dev": ("drop",), "probe": False}
        sc.append((p, 3 if quick else 5))
    # one command in flight (nothing answers: 7.5 s), three queued with every priority assignment, one of which gives up while queued
    for prios in itertools.product(PRIOS, repeat=3):
        for short in range(3):
            p = {
                "qos_mode": False,
                "callers": [caller("rq30c9_01")] + [caller(f"rq30c9_0{i+2}", prio=pr, timeout=0.25 if i == short else 20.0) for i, pr in enumerate(prios)],
                "env": {"echo": False, "reply": False},
                "dev": (),
                "probe": False,
            }
            sc.append((p, 0))
    # N queued commands: all priority assignments, N <= 4 (quick: N <= 3 + a slice of 4)
    for n in (2, 3, 4):
        for prios in itertools.product(PRIOS, repeat=n):
            if quick and n == 4 and prios[0] != "DEFAULT":
                continue
            p = {
                "qos_mode": False,
                "callers": [caller(f"rq30c9_0{i+1}", prio=pr, timeout=20.0) for i, pr in enumerate(prios)],
                "dev": ("drop", "call") if n <= 3 else (),
                "probe": False,
            }
            sc.append((p, 1 if n <= 3 else 0))
    # callers that time out while queued behind a command that takes 7.5 s
    for prios in itertools.product(PRIOS, repeat=3):
        p = {
            "qos_mode": False,
            "callers": [
                caller("rq30c9_01", prio=prios[0], timeout=20.0),
                caller("rq30c9_02", prio=prios[1], timeout=0.25),
                caller("rq30c9_03", prio=prios[2], timeout=20.0),
            ],
            "env": {"deaf": ()},
            "dev": ("drop", "late"),
            "probe": False,
        }
        sc.append((p, 2))
    # late arrivals while another command is in flight
    for prios in itertools.product(PRIOS, repeat=3):
        p = {
            "qos_mode": False,
            "callers": [
                caller("rq30c9_01", prio=prios[0]),
                caller("rq30c9_02", prio=prios[1], start="q"),
                caller("rq30c9_03", prio=prios[2], start="q"),
            ],
            "dev": ("call", "drop"),
            "probe": False,
        }
        sc.append((p, 2))
    # the wall clock the queue stamps its entries with is not monotonic: 1 ms resolution / set back by an hour after the first caller
    # (end of DST for naive local time, an NTP correction): first-come-first-served within a priority must not depend on it
    for wc in ("coarse", "stepback"):
        for n in (2, 3, 4):
            for prios in itertools.product(PRIOS, repeat=n):
                if n == 4 and len(set(prios)) > 2:
                    continue
                p = {
                    "qos_mode": False,
                    "wallclock": wc,
                    "callers": [caller(f"rq30c9_0{i+1}", prio=pr, timeout=20.0) for i, pr in enumerate(prios)],
                    "dev": ("call",) if n <= 3 else (),
                    "probe": False,
                }
                sc.append((p, 1 if n <= 3 else 0))
    # two callers with the very same frame (two Command objects), nothing ever comes back; the second gives up while still queued
    for retries in (1, 3):
        for to_b in (0.25, 0.7, 2.0):
            for same in (None, 0):
                p = {
                    "qos_mode": False,
                    "callers": [caller("rq30c9_01", retries=retries, timeout=20.0), caller("rq30c9_01", same_as=same, retries=retries, timeout=to_b)],
                    "env": {"echo": False, "reply": False},
                    "dev": (),
                    "probe": False,
                }
                sc.append((p, 0))
    # a long-lived sender: 30 / 31 / 33 commands come and go one after another, then a backlog of six builds up at once behind the next
    # (whatever the queue uses to tell arrivals apart must not wear out or wrap with use)
    for done in (30, 31, 33):
        for prios in (("DEFAULT",) * 6, ("DEFAULT", "DEFAULT", "HIGH", "DEFAULT", "LOW", "DEFAULT")):
            cs = [caller(f"rq3220_{i:02X}", timeout=20.0, start="q" if i else "t0") for i in range(done)]
            cs.append(caller("rq30c9_01", timeout=20.0, start="q"))  # (the controller never answers: this one stays in flight for seconds)
            cs += [caller(f"rq3220_{0x40 + k:02X}", prio=pr, timeout=20.0, start="q") for k, pr in enumerate(prios)]
            sc.append(({"qos_mode": False, "callers": cs, "env": {"deaf": ("01:145038",)}, "dev": (), "probe": False, "max_steps": 20000}, 0))
    # an echo that lands in the loop iteration right after its own timer fired (the re-send is abandoned), then the reply is lost
    for retries in (0, 1, 3):
        for wfr in (True, False):
            p = {"qos_mode": False, "callers": [caller("rq30c9_01", wfr=wfr, retries=retries, timeout=20.0)], "dev": ("drop", "late", "ready_deliver"), "probe": False}
            sc.append((p, 3))
    # the 32-slot buffer: 33 callers at once
    for npri in (0, 1):
        p = {
            "qos_mode": False,
            "callers": [caller(f"rq0004_{i:02X}" if i < 12 else f"rq3220_{i:02X}", prio=PRIOS[(i * (npri + 1)) % 3] if npri else "DEFAULT", timeout=20.0) for i in range(33)],
            "dev": (),
            "probe": False,
            "max_steps": 20000,
        }
        sc.append((p, 0))
    if not quick:
        for retries in (0, 1, 3):
            p = {"qos_mode": False, "callers": [caller("rq30c9_01", retries=retries, timeout=20.0)], "dev": loss + ("wfail",), "probe": False}
            sc.append((p, 3))
        for prios in itertools.product(PRIOS, repeat=2):
            p = {
                "qos_mode": False,
                "callers": [caller("rq30c9_01", prio=prios[0], timeout=1.5001), caller("w2309_02", prio=prios[1])],
                "dev": loss + ("call",),
                "probe": False,
            }
            sc.append((p, 3))
    return sc


def run(ctx) -> None:
    sc = scenarios(ctx.quick)
    total, byD = QC.drive(ctx, PROPERTY, sc)
    ctx.coverage.update(
        states=total.nodes,
        transitions=max(1, total.nodes - len(sc)),
        traces_validated_against_impl=total.executions,
        executions=total.executions,
        scenarios=len(sc),
        executions_by_deviation_bound={str(k): v for k, v in sorted(byD.items())},
        deviation_bound_completed=max(d for _, d in sc),
        max_depth=total.max_depth,
        distinct_outcomes=len(total.outcomes),
        deviations_taken=dict(total.actions),
        determinism_audits=total.audited,
        caps_hit=0,
        exhaustive=True,
        samples=total.samples[:3],
        rule="max_retries 0..5 x timeouts x every loss pattern over the attempts (drop-only schedules to D=4/8), all 3^N priority "
        "assignments N<=4, queued time-outs, late arrivals, 33 callers; oracle on the sequence of (event#, time, frame) handed to write_frame",
    )
    ctx.assumptions += [
        "back-off after an attempt whose echo DID arrive is only bounded (>= base, <= 16x base), see DESIGN section 5",
        "a caller counts as 'queued before X' only if it called send_cmd >= 3 loop iterations before X's first write",
    ]


def replay(rep: dict):
    return QC.replay(PROPERTY, rep)
