"""C19 - the fault-log view tracks the controller's log (E2: explicit-state BFS over histories of the real
FaultLog against a reference controller log)."""

from __future__ import annotations

import collections
from datetime import datetime as dt, timedelta as td

from mc import logcap, modstate
from mc.vloop import dispose_loop, install_loop

PROPERTY = "C19"
LEVEL = "model_checking"

CTL = "01:145038"
GWY = "18:006402"
T0 = dt(2021, 12, 23, 0, 0, 0)
NULL_PL = "000000B0000000000000000000007FFFFF7000000000"
DEVS = ("04:111111", "04:222222")


def L():
    from ramses_tx import exceptions as exc
    from ramses_tx.command import Command
    from ramses_tx.const import FaultDeviceClass, FaultState, FaultType
    from ramses_tx.message import Message
    from ramses_tx.packet import Packet
    from ramses_rf.system.faultlog import FaultLog

    return locals()


def ts(n: int) -> str:
    return (T0 + td(minutes=n)).strftime("%y-%m-%dT%H:%M:%S")


def is_fault(n: int) -> bool:
    """Entry n of the controller's log: fault dev0, fault dev1, restore dev0, restore dev1, ... (two devices of ONE zone, class and
    fault type, their faults and restores interleaved)."""
    return n % 4 in (1, 2)


def dev_of(n: int) -> str:
    return DEVS[(n - 1) % 2]


class World:
    """Reference = the controller's log (list of entry numbers, newest first). Implementation = real FaultLog."""

    def __init__(self) -> None:
        self.lib = L()
        # every world starts from the library's import-time module-/class-level state (the search builds thousands of worlds in one
        # process: state kept outside the instances must not travel from one world to the next - within a world it is judged)
        modstate.snapshot()
        modstate.reset()
        self.loop = install_loop()
        self.log: list[int] = []
        self.n = 0
        self.reported: set[int] = set()
        self.fail_at: int | None = None
        self.new_at: int | None = None
        self.reqs = 0
        self.errors: list[str] = []

        class Gwy:
            async def async_send_cmd(g, cmd, **kw):  # the scripted controller
                return await self._answer(cmd)

        class Tcs:
            id = CTL
            _gwy = Gwy()

        self.fl = self.lib["FaultLog"](Tcs())

        class Tcs2:  # another controller's fault log in the same process: it never hears anything
            id = "01:999999"
            _gwy = Gwy()

        self.bystander = self.lib["FaultLog"](Tcs2())
        self.poll_views = False

        class Tcs3:  # a third controller's fault log, which has heard one entry of its own (long ago)
            id = "01:888888"
            _gwy = Gwy()

        self.peer = self.lib["FaultLog"](Tcs3())
        self.peer.handle_msg(self.lib["Message"](self._pkt(" I", self._payload(-1000, 0))))

    def close(self) -> None:
        dispose_loop(self.loop)

    # --- messages a controller would send
    def _payload(self, n: int, idx: int) -> str:
        lib = self.lib
        st = lib["FaultState"].FAULT if is_fault(n) else lib["FaultState"].RESTORE
        dev = dev_of(n)
        cmd = lib["Command"]._put_system_log_entry(
            CTL, st, lib["FaultType"].BATTERY_LOW, lib["FaultDeviceClass"].ACTUATOR, device_id=dev, domain_idx="03", _log_idx=0, timestamp=T0 + td(minutes=n)
        )
        return cmd.payload[:4] + f"{idx:02X}" + cmd.payload[6:]  # (the test-only constructor refuses idx 63)

    def _pkt(self, verb: str, payload: str):
        lib = self.lib
        if verb == " I":
            fr = f" I --- {CTL} --:------ {CTL} 0418 022 {payload}"
        else:
            fr = f"RP --- {CTL} {GWY} --:------ 0418 022 {payload}"
        return lib["Packet"](dt(2022, 1, 1) + td(seconds=self.reqs + self.n), "045 " + fr)

    async def _answer(self, cmd):
        lib = self.lib
        self.reqs += 1
        k = self.reqs
        if self.poll_views:  # an application reads the views while the read-through is in progress (before every reply)
            for name in ("faultlog", "latest_event", "latest_fault", "active_faults"):
                try:
                    getattr(self.fl, name)
                except Exception:  # noqa: BLE001
                    pass
        if self.fail_at is not None and k == self.fail_at:
            raise lib["exc"].ProtocolSendFailed("harness: request lost 4 times")
        if self.new_at is not None and k == self.new_at:
            self.do_new(True)
        idx = int(cmd.payload[4:6], 16)
        if idx < len(self.log):
            n = self.log[idx]
            self.reported.add(n)
            pkt = self._pkt("RP", self._payload(n, idx))
        else:
            pkt = self._pkt("RP", NULL_PL)
        # the dispatcher hands every received RP to the fault log before send_cmd() returns it
        self.fl.handle_msg(lib["Message"](pkt))
        return pkt

    # --- the alphabet
    def do_new(self, announce: bool) -> None:
        self.n += 1
        self.log.insert(0, self.n)
        if announce:
            self.reported.add(self.n)
            self.fl.handle_msg(self.lib["Message"](self._pkt(" I", self._payload(self.n, 0))))

    def do_clear(self, keep: int) -> None:
        """The controller's log loses its oldest entries without a word (reset / replaced controller / restored from a backup): what the
        library believed before may now be anything - the statement's 'whatever was believed before'."""
        self.log = self.log[:keep]

    def do_rp(self, i: int) -> None:
        if i < len(self.log):
            self.reported.add(self.log[i])
            self.fl.handle_msg(self.lib["Message"](self._pkt("RP", self._payload(self.log[i], i))))
        else:
            self.fl.handle_msg(self.lib["Message"](self._pkt("RP", NULL_PL)))

    def do_read(self, limit: int, fail_at=None, new_at=None, poll=False):
        self.reqs = 0
        self.fail_at, self.new_at = fail_at, new_at
        self.poll_views = poll
        try:
            return ("ok", self.loop.run_coro(self.fl.get_faultlog(start=0, limit=limit), horizon=10))
        except Exception as e:  # noqa: BLE001
            return ("exc", type(e).__name__, isinstance(e, self.lib["exc"].ProtocolError))
        finally:
            self.fail_at = self.new_at = None
            self.poll_views = False

    def apply(self, ev):
        k = ev[0]
        if k == "new":
            self.do_new(ev[1])
        elif k == "rp":
            self.do_rp(ev[1])
        elif k == "clear":
            self.do_clear(ev[1])
        elif k == "read":
            return self.do_read(ev[1])
        elif k == "read_fail":
            return self.do_read(64, fail_at=ev[1])
        elif k == "read_new":
            return self.do_read(64, new_at=ev[1])
        elif k == "read_polled":
            return self.do_read(64, poll=True)
        return None

    def view(self) -> dict[int, str]:
        return {int(i): e.timestamp for i, e in self.fl.faultlog.items()}

    def canon(self):
        return (tuple(self.log), tuple(sorted(self.fl._map.items())), tuple(sorted(self.fl._log)), self.fl._is_getting)


def invariants(w: World) -> list[tuple[str, str]]:
    out = []
    fl = w.fl
    for name in ("faultlog", "latest_event", "latest_fault", "active_faults"):
        try:
            getattr(fl, name)
        except Exception as e:  # noqa: BLE001
            out.append((f"C19:view-raises:{name}:{type(e).__name__}", f"FaultLog.{name} raised {type(e).__name__}: {e}"))
    if out:
        return out
    by = w.bystander
    try:
        if by.faultlog or by.latest_event is not None or by.latest_fault is not None or by.active_faults:
            out.append(("C19:another-controller's-log-shows-entries", f"a fault log that never received a message shows faultlog={dict(by.faultlog)!r} latest_event={by.latest_event!r} active_faults={by.active_faults!r}"[:400]))
    except Exception as e:  # noqa: BLE001
        out.append((f"C19:view-raises:bystander:{type(e).__name__}", f"a fault log that never received a message: {e}"))
    v = w.view()
    pairs = sorted(v.items())
    tss = [t for _, t in pairs]
    if len(set(tss)) != len(tss):
        out.append(("C19:entry-at-two-positions", f"view {pairs}"))
    for (i1, t1), (i2, t2) in zip(pairs, pairs[1:]):
        if not t1 > t2:
            out.append(("C19:not-newest-first", f"view {pairs}"))
            break
    rep = {ts(n) for n in w.reported}
    if not set(tss) <= rep:
        out.append(("C19:unreported-entry", f"view shows {sorted(set(tss) - rep)} which the controller never reported"))
    le = fl.latest_event
    if v and le is not None and le.timestamp != max(tss):
        out.append(("C19:latest-event-not-newest", f"latest_event {le.timestamp} but view has {max(tss)}"))
    # the entries shown are the controller's entries (not only their timestamps), and the derived views follow from them
    by_ts = {ts(n): n for n in range(1, w.n + 1)}
    known = {}
    for e in fl._log.values():
        n = by_ts.get(e.timestamp)
        if n is None:
            continue  # (already reported above, if it is in the view)
        known[n] = e
        if (e.fault_state == w.lib["FaultState"].FAULT) != is_fault(n) or e.device_id != dev_of(n) or e.domain_idx != "03":
            out.append(("C19:entry-content-differs", f"entry {e.timestamp} is {e.fault_state}/{e.device_id}/{e.domain_idx}; the controller logged {'fault' if is_fault(n) else 'restore'}/{dev_of(n)}/03"))
            return out
    if known:
        faults = [n for n in known if is_fault(n)]
        lf = fl.latest_fault
        if (lf.timestamp if lf else None) != (ts(max(faults)) if faults else None):
            out.append(("C19:latest-fault-wrong", f"latest_fault {lf.timestamp if lf else None}; the newest known fault is {ts(max(faults)) if faults else None}"))
        # outstanding faults, per device: decided only where the known entries of that device alternate fault/restore (then 'the
        # last one is a fault' is the only reading of 'no corresponding restore')
        af = fl.active_faults or ()
        got = collections.Counter(e.device_id for e in af)
        for d in DEVS:
            seq = [is_fault(n) for n in sorted(known) if dev_of(n) == d]
            if any(a == b for a, b in zip(seq, seq[1:])):
                continue
            want = 1 if seq and seq[-1] else 0
            if got.get(d, 0) != want:
                out.append(("C19:active-faults-wrong", f"known entries of {d} (oldest first, fault=True): {seq}; active_faults lists it {got.get(d, 0)} time(s): {[(e.timestamp, e.device_id) for e in af]}"))
                break
    return out


ALPHABET_EXTRA = {"clear"}


def enabled(w: World, maxlog: int) -> list:
    acts = []
    if len(w.log) < maxlog:
        acts += [("new", True), ("new", False)]
    acts += [("rp", i) for i in range(len(w.log) + 1)]
    acts += [("read", 64), ("read", 2), ("read_polled", 64)]
    if w.log and "clear" in ALPHABET_EXTRA:
        acts += [("clear", 0)] + ([("clear", 1)] if len(w.log) > 1 else [])
    if w.log:
        acts += [("read_fail", k) for k in range(1, min(len(w.log), 3) + 1)]
        if len(w.log) < maxlog:
            acts += [("read_new", k) for k in range(1, min(len(w.log), 2) + 2)]
    return acts


def build(hist) -> World:
    w = World()
    for ev in hist:
        w.apply(ev)
    return w


def step_oracles(hist, ev, before_view, before_log, w: World, result) -> list[tuple[str, str]]:
    out = invariants(w)
    v = w.view()
    if ev[0] == "read_polled":
        ev = ("read", ev[1])  # (a read-through during which the application kept reading the views: same demands)
    if ev[0] == "read" and result and result[0] == "ok":
        want = {i: ts(n) for i, n in enumerate(w.log[: ev[1]])}
        got = {i: v.get(i) for i in want}
        extra = [i for i in v if i < ev[1] and i >= len(w.log)]
        if got != want or (ev[1] >= 64 and (extra or len(v) != len(w.log))):
            out.append((f"C19:read-through-differs:limit={ev[1]}", f"after reading {ev[1]} from the top the view is {sorted(v.items())}, the controller's log is {sorted(want.items())}"))
    if ev[0] in ("read", "read_fail", "read_new") and result and result[0] == "exc" and not result[2]:
        out.append((f"C19:read-raises:{result[1]}", f"get_faultlog raised {result[1]} (not a protocol error)"))
    if ev[0] in ("read", "read_new", "read_fail") and w.fl._is_getting and (result and result[0] == "ok"):
        out.append(("C19:still-getting-after-read", "get_faultlog returned but the log still believes a read is in progress"))
    if ev == ("new", True):
        # the announced entry is on top and every previously known entry moved down by one
        n = w.n
        if v.get(0) != ts(n):
            out.append(("C19:announcement-not-on-top", f"announced {ts(n)}; view {sorted(v.items())}"))
        want = {i + 1: t for i, t in before_view.items() if i + 1 <= 0x3F}  # (positions 0..63: what a read-through reads)
        got = {i: v.get(i) for i in want}
        if got != want:
            hole = 0 not in before_view
            out.append((f"C19:announcement-does-not-push-down:{'top-unknown' if hole else 'top-known'}", f"before {sorted(before_view.items())}, after announcing {ts(n)}: {sorted(v.items())}"))
    return out


def explore(depth: int, maxlog: int, ctx, roots=((),)):
    from mc import hist as E2

    r = E2.bfs(
        roots=roots,
        build=build,
        enabled=lambda w: enabled(w, maxlog),
        step=lambda w, ev: w.apply(ev),
        canon=lambda w: w.canon(),
        oracle=lambda h, ev, before, w, res: step_oracles(h, ev, before[0], before[1], w, res),
        depth=depth,
        snapshot=lambda w: (w.view(), list(w.log)),
        close=lambda w: w.close(),
    )
    return r.seen, r.transitions, r.violations, r.vcount, r.max_depth


def long_history(ctx):
    """The 64-entry limit: one long history (70 new entries, announcements delivered, periodic read-throughs)."""
    w = World()
    viol = {}
    steps = 0
    for k in range(70):
        before = w.view()
        ev = ("new", k % 3 != 2)
        w.apply(ev)
        steps += 1
        for key, what in step_oracles((), ev, before, None, w, None):
            viol.setdefault(key + ":long", {"what": f"long history step {k}: {what}"[:600], "replay": {"long": True}})
        if k % 10 == 9:
            res = w.apply(("read", 64))
            steps += 1
            v = w.view()
            want = {i: ts(n) for i, n in enumerate(w.log[:64])}
            if res[0] != "ok" or {i: v.get(i) for i in want} != want:
                viol.setdefault("C19:read-through-differs:long", {"what": f"long history, {len(w.log)} entries: view {len(v)} entries differs from controller over 0..63 ({res[0]})", "replay": {"long": True}})
    w.close()
    # a full log read through from scratch (nothing believed before), and with only one deep position believed
    for total in (64, 66):
        for pre in (None, 40, 63):
            w = World()
            for _ in range(total):
                w.apply(("new", False))
            if pre is not None:
                w.apply(("rp", pre))
            res = w.apply(("read", 64))
            steps += total + 2
            v = w.view()
            want = {i: ts(n) for i, n in enumerate(w.log[:64])}
            if res[0] != "ok" or {i: v.get(i) for i in want} != want:
                miss = [i for i in want if v.get(i) != want[i]]
                viol.setdefault("C19:read-through-differs:long", {"what": f"a {total}-entry log read through from the top (prior belief: {'none' if pre is None else f'position {pre}'}): positions {miss[:5]} differ from the controller's ({res[0]})", "replay": {"long": True}})
            for key, what in invariants(w):
                viol.setdefault(key + ":long", {"what": f"full-log read: {what}"[:600], "replay": {"long": True}})
            w.close()
    return steps, viol


def run(ctx) -> None:
    logcap.install()
    depth, maxlog = (7, 5) if ctx.quick else (9, 6)
    seen, transitions, viol, vcount, maxd = explore(depth, maxlog, ctx)
    # non-initial starting states: the controller already holds K entries the library has never heard of (it was started later / every
    # announcement was lost); from there every history to depth d2 with a deeper log allowed
    k0, d2, maxlog2 = (4, 5, 6) if ctx.quick else (5, 6, 8)
    roots = [tuple(("new", False) for _ in range(k)) for k in (k0, k0 + 1)]
    seen2, tr2, viol2, vc2, maxd2 = explore(d2, maxlog2, ctx, roots=roots)
    for k, v in viol2.items():
        viol.setdefault(k, v)
    vcount.update(vc2)
    transitions += tr2
    seen = {**{("root", k): v for k, v in seen2.items()}, **seen}
    steps, lv = long_history(ctx)
    viol.update(lv)
    ctx.vcount = dict(vcount)
    for k, v in sorted(viol.items()):
        ctx.violation(k, v["what"], v["replay"])
    samples = [list(map(list, h)) for h in list(seen.values())[5:400:97]]
    ctx.coverage.update(
        states=len(seen),
        transitions=transitions + steps,
        traces_validated_against_impl=transitions,
        depth=depth,
        max_log_depth=maxlog,
        max_depth_reached=maxd,
        exhaustive=True,
        samples=samples or [[["new", True]]],
        second_search={"roots": [len(r) for r in roots], "depth_from_root": d2, "max_log_depth": maxlog2, "states": len(seen2), "transitions": tr2, "max_depth_reached": maxd2},
        rule=f"BFS over all histories to depth {depth} of {{new entry (announcement delivered / lost), solicited reply for position 0..len, read-through "
        f"limit 64 / 2, read-through with the k-th request failing, read-through during which a new entry arrives}}; controller log depth <= {maxlog}; dedup on "
        "(controller log, FaultLog._map, FaultLog._log keys); every transition executes the real FaultLog (handle_msg / get_faultlog on the virtual loop); "
        f"+ a second BFS from non-initial states (the controller already holds {k0}/{k0 + 1} entries unknown to the library) to depth {d2}, log depth <= {maxlog2}; "
        "+ long histories for the 64-entry limit (70 entries with periodic read-throughs; a full 64- / 66-entry log read through by a library that knows nothing / only a deep entry)",
    )
    ctx.assumptions += ["entry timestamps are unique and increasing (as the library documents)", "entries: two devices of one zone / class / fault type, fault-fault-restore-restore interleaved; active_faults is decided per device only where its known entries alternate", "every received RP reaches handle_msg before get_faultlog sees it (dispatcher order)"]


def replay(rep: dict):
    logcap.install()
    if rep.get("long"):
        return [(k, v["what"]) for k, v in long_history(None)[1].items()]
    hist = [tuple(e) for e in rep["hist"]]
    # (the search builds thousands of worlds in one process; a fault log that keeps state outside its own instance is polluted by the
    #  worlds before it - the replay therefore runs the history once to warm the process, then again and judges)
    build(tuple(hist)).close()
    w = build(tuple(hist[:-1]))
    bv, bl = w.view(), list(w.log)
    res = w.apply(hist[-1])
    out = step_oracles(tuple(hist[:-1]), hist[-1], bv, bl, w, res)
    w.close()
    return out
