"""C13 - no traffic can break the gateway: views always answer, engine keeps running (E2 over k-edit histories)."""

from __future__ import annotations

from datetime import timedelta as td

import json

from checks import gwy_common as GC
from mc import enum as E
from mc import logcap

PROPERTY = "C13"
LEVEL = "exploration"

PROBE_RX = " I --- 01:145038 --:------ 01:145038 1F09 003 FF0532"


def snapshot_cycle(w, gwy, t: E.Tally, rep: dict, where: str, include_expired: bool = False) -> None:
    """get_state(), restore it, and check the gateway is still running whether or not they succeeded."""
    from ramses_tx.command import Command

    state = None
    try:
        state = gwy.get_state(include_expired=include_expired)
    except Exception as e:  # noqa: BLE001
        t.bad(f"C13:get_state-raises:{type(e).__name__}:{GC._origin(e)}", f"{where}: gwy.get_state() raised {type(e).__name__}: {str(e)[:80]}", rep)
    bad = GC.engine_ok(w, gwy)
    if bad:
        t.bad(f"C13:not-running-after-get_state:{bad[0]}", f"{where}: after get_state(): {bad}", rep)
        return
    if state is not None:
        r = w.run(gwy._restore_cached_packets(state[1]), horizon=30)
        if r[0] != "ok":
            t.bad(f"C13:restore-fails:{r[0]}:{type(r[1]).__name__ if r[1] else ''}", f"{where}: _restore_cached_packets -> {r[0]} {r[1]!r}"[:300], rep)
        bad = GC.engine_ok(w, gwy)
        if bad:
            t.bad(f"C13:not-running-after-restore:{bad[0]}", f"{where}: after restore: {bad}", rep)
            return
    # still receiving?
    got = []
    gwy.add_msg_handler(got.append)
    w.rx(PROBE_RX)
    if not got:
        t.bad("C13:not-receiving-after-snapshot", f"{where}: a packet received after the snapshot/restore was not handled", rep)
    gwy._protocol._msg_handlers.remove(got.append) if got.append in gwy._protocol._msg_handlers else None
    # still sending?
    n0 = len(w.written)
    task = w.loop.create_task(gwy.async_send_cmd(Command.get_system_time("01:145038"), max_retries=0, timeout=1))
    w.loop.settle()
    if len(w.written) == n0:
        t.bad("C13:not-sending-after-snapshot", f"{where}: a command sent after the snapshot/restore did not reach the transport ({task})", rep)
    if not task.done():
        task.cancel()
    w.loop.quiesce(w.loop.time() + 10)
    w.loop.exc.clear()


def restore_race(lines: list, upto: int, eav: bool, t: E.Tally, rep: dict, where: str, quick: bool) -> None:
    """A snapshot requested while a restore is in flight: at every loop iteration k of the restore, get_state() is
    called (it may refuse); when the restore has finished the gateway must be running.  Likewise a restore that is
    abandoned (its task cancelled) at every iteration k: an operation that did not succeed must leave the gateway running."""
    _restore_interrupted(lines, upto, eav, t, rep, where, quick, "snapshot")
    _restore_interrupted(lines, upto, eav, t, rep, where, quick, "cancel")


def _restore_interrupted(lines: list, upto: int, eav: bool, t: E.Tally, rep: dict, where: str, quick: bool, action: str) -> None:
    k = 0
    while k < 3000:
        w, gwy = GC.new_world(eavesdrop=eav)
        try:
            for ln in lines[:upto]:
                GC.feed(w, ln)
            state = gwy.get_state(include_expired=True)
            task = w.loop.create_task(gwy._restore_cached_packets(state[1]))
            n = 0
            while not task.done() and n < k:
                if w.loop._ready:
                    w.loop.run_batch()
                else:
                    nt = w.loop.next_timer()
                    if nt is None:
                        break
                    w.loop.fire_due(nt)
                n += 1
            mid = None
            if not task.done() and action == "cancel":
                task.cancel()
                mid = "cancelled"
                w.loop.quiesce(w.loop.time() + 30)
                t.n += 1
                bad = GC.engine_ok(w, gwy)
                if bad:
                    t.bad(f"C13:not-running-after-abandoned-restore:{bad[0]}", f"{where}: restore cancelled at its loop iteration {k}; afterwards: {bad}", rep)
                    return
                k += 1 if not quick else 2
                continue
            if not task.done():
                try:
                    gwy.get_state()
                    mid = "ok"
                except RuntimeError:
                    mid = "refused"
                except Exception as e:  # noqa: BLE001
                    t.bad(f"C13:get_state-during-restore-raises:{type(e).__name__}", f"{where}: get_state() at iteration {k} of a restore raised {type(e).__name__}: {e}", rep)
            w.loop.quiesce(w.loop.time() + 30)
            t.n += 1
            bad = GC.engine_ok(w, gwy)
            if not task.done():
                t.bad("C13:restore-never-finishes", f"{where}: restore still pending after a get_state() at iteration {k}", rep)
            elif task.exception() is not None:  # (a snapshot that was refused must not make the restore it interrupted fail)
                t.bad(f"C13:restore-raises:{type(task.exception()).__name__}", f"{where}: restore raised {task.exception()!r} (get_state at iteration {k}: {mid})", rep)
            if bad:
                t.bad(f"C13:not-running-after-concurrent-snapshot:{bad[0]}", f"{where}: get_state() at iteration {k} of a restore ({mid}); afterwards: {bad}", rep)
                return
            if mid is None and k > 0:
                return  # the restore finished before iteration k: every interleaving point has been tried
        finally:
            w.close()
        k += 1 if not quick else 2


def views(gwy, t: E.Tally, rep: dict, where: str) -> None:
    for v, et, msg in GC.eval_views(gwy):
        t.bad(f"C13:view-raises:{v}:{et}", f"{where}: {v} raised {et} ({msg})", rep)


def _known_state(gwy) -> dict:
    out = {}
    for cid, tcs in gwy.system_by_id.items():
        try:
            out[cid] = json.dumps([tcs.schema, tcs.params, tcs.status], sort_keys=True, default=str)
        except Exception:  # noqa: BLE001
            pass
    return out


def run_history(t: E.Tally, lines: list, rep: dict, *, eavesdrop: bool, check_at: set[int], snap_at: set[int], label: str, quiet_span=None):
    w, gwy = GC.new_world(eavesdrop=eavesdrop)
    before = None
    try:
        for k, ln in enumerate(lines):
            if quiet_span and k == quiet_span[0]:
                _known_state(gwy)  # (a read that finds a message expired still returns it and only then drops it:
                w.loop.settle()  # warm up once so that the comparison is not about expiry)
                before = _known_state(gwy)
            if quiet_span and k == quiet_span[1] and before is not None:
                after = _known_state(gwy)
                for cid, want in before.items():
                    if after.get(cid) != want:
                        t.bad("C13:neighbour-traffic-changes-known-system", f"{label}: schema/params/status of {cid} changed while only a neighbour's packets (lines {quiet_span[0]}..{quiet_span[1] - 1}) were received", rep)
                        break
            try:
                GC.feed(w, ln)
            except Exception as e:  # noqa: BLE001
                t.bad(f"C13:receive-raises:{type(e).__name__}:{GC._origin(e)}", f"{label}: feeding line {k} {ln[2]!r} raised {type(e).__name__}: {str(e)[:80]}", rep)
                return None
            if k in check_at:
                views(gwy, t, rep, f"{label} after line {k}")
            if k in snap_at and k != len(lines) - 1:
                snapshot_cycle(w, gwy, t, rep, f"{label} after line {k}")
        t.n += 1
        try:
            res = {cid: json.dumps([tcs.schema, tcs.params, tcs.status], sort_keys=True, default=str) for cid, tcs in gwy.system_by_id.items()}
        except Exception:  # noqa: BLE001
            res = None  # (already reported by views)
        if len(lines) - 1 in snap_at:
            snapshot_cycle(w, gwy, t, rep, f"{label} at the end")
        # ... and later: nothing more is heard while the clock runs on (messages age out at 20 min .. 2 h .. a day); every view is read
        # twice at each age (the first read of an expired message is the one that removes it)
        for age in (td(minutes=45), td(hours=2, minutes=10), td(hours=50)):
            w.set_time(w.now() + age)
            for n in (1, 2):
                views(gwy, t, rep, f"{label} at the end + {age} of silence (read {n})")
        if len(lines) - 1 in snap_at:
            snapshot_cycle(w, gwy, t, rep, f"{label} after the silence")
        return res
    finally:
        w.close()


def _splits_fragments(lines, pos: int) -> bool:
    """Do lines[pos-1] / lines[pos] look like two fragments of one array broadcast (same sender, code, within 1 s)?
    The library merges such pairs only when they are consecutive, so a packet in between legitimately changes the result."""
    from datetime import datetime as dt

    if pos <= 0 or pos >= len(lines):
        return False
    a, b = lines[pos - 1], lines[pos]
    fa, fb = a[2].split(), b[2].split()
    return a[2][:2] == b[2][:2] == " I" and fa[-3] == fb[-3] and fa[-6:-3] == fb[-6:-3] and abs((dt.fromisoformat(b[0]) - dt.fromisoformat(a[0])).total_seconds()) < 3


def shard_base(arg) -> E.Tally:
    """Unedited logs: every view after every packet; snapshot/restore at every (quick: every 5th) prefix."""
    rel, eav, quick = arg
    logcap.install()
    t = E.Tally()
    lines = GC.log(rel)
    n = len(lines)
    stride = 5 if quick else 1
    run_history(t, lines, {"log": rel, "eav": eav, "edit": None}, eavesdrop=eav, check_at=set(range(n)), snap_at=set(range(0, n, stride)) | {n - 1}, label=f"{rel}")
    t.nontrivial += 1
    t.by["packets"] += n
    if n <= 120 or not quick:
        restore_race(lines, min(n, 60), eav, t, {"log": rel, "eav": eav, "edit": None}, f"{rel}[:{min(n, 60)}]", quick)
    return t


def _do_edit(t: E.Tally, rel: str, eav: bool, lines: list, lab: str, pos: int, hist: list, others, cache: dict) -> bool:
    """Run one edited history with all its oracles; False if the edit is not applicable."""
    if lab.startswith("nbarray"):
        if eav or _splits_fragments(lines, pos):
            return False  # (with eavesdropping a neighbour's zones are legitimately picked up; between two halves of OUR array any packet changes the join)
        if "base_final" not in cache:
            cache["base_final"] = run_history(E.Tally(), GC.retime(lines), {}, eavesdrop=eav, check_at=set(), snap_at=set(), label="baseline") or {}
    hist = GC.retime(hist)
    n = len(hist)
    check = {p for p in (pos - 1, pos, pos + 1, pos + 2, pos + 3, n - 1) if 0 <= p < n} | set(range(pos, n, 25))
    if lab.startswith("splice") or lab.startswith("clone"):
        check |= set(range(pos, min(n, pos + 46), 4))
    snap = {p for p in (pos + 1, pos + 10, n - 1) if 0 <= p < n}
    if lab.startswith("splice") and not eav:
        snap = {n - 1}  # (a snapshot cycle injects a probe packet: keep the run comparable with the unspliced one)
    rep = {"log": rel, "eav": eav, "edit": lab, "others": others}
    span = None
    if (lab.startswith("splice") or lab.startswith("clone")) and not eav and not _splits_fragments(lines, pos):
        span = (pos, pos + (n - len(lines)))
        snap = {n - 1}
    if lab.startswith("nbarray"):
        snap, check = set(), set()  # (the same reads as the baseline run: a read that finds a message expired drops it)
    res = run_history(t, hist, rep, eavesdrop=eav, check_at=check - (set(range(span[0], span[1])) if span else set()), snap_at=snap, label=f"{rel}[{lab}]", quiet_span=span)
    if lab.startswith("nbarray") and res is not None and cache.get("base_final"):
        for cid, want in cache["base_final"].items():
            if res.get(cid) != want:
                t.bad("C13:neighbour-array-changes-known-system", f"{rel}[{lab}]: a neighbour's {hist[pos][2].split()[-3]} array heard 20 ms before ours (line {pos}) changed the final schema/params/status of {cid}", rep)
                break
    return True


def shard_edits(arg) -> E.Tally:
    rel, eav, i, nsh, others, quick = arg
    logcap.install()
    t = E.Tally()
    lines = GC.log(rel)
    splice = [GC.log(o) for o in others]
    cache: dict = {}
    for j, (lab, pos, hist) in enumerate(GC.single_edits(lines, splice_from=splice)):
        if j % nsh != i:
            continue
        if not _do_edit(t, rel, eav, lines, lab, pos, hist, others, cache):
            continue
        t.nontrivial += 1
        t.by[lab.split("@")[0].rstrip("0123456789")] += 1
        if j % 601 == 0:
            t.sample({"log": rel, "edit": lab, "eavesdrop": eav, "length": len(hist)})
    return t


def _ids(rel: str) -> set[str]:
    out = set()
    for _d, _r, fr in GC.log(rel.replace("#digest", "")):
        out.update(a for a in fr.split()[-6:-3] if a not in ("--:------", "63:262142", "18:000730"))
    return out


def plan(quick: bool):
    sys_logs = GC.available(GC.SYSTEM_LOGS)
    oth_logs = GC.available(GC.OTHER_LOGS)
    jobs = []
    for rel in sys_logs + oth_logs + GC.parser_logs():
        n = len(GC.log(rel))
        for eav in (False, True):
            if quick and n > 300:
                continue
            jobs.append(("shard_base", (rel, eav, quick)))
    for rel in sys_logs + oth_logs:
        n = len(GC.log(rel))
        if n > (200 if quick else 1000):
            continue
        mine = _ids(rel)
        others = [o for o in sys_logs if o != rel and len(GC.log(o)) >= 19 and not (_ids(o) & mine)][:2]  # really another system: no device in common
        nsh = max(1, n // (12 if quick else 6))
        for eav in (False, True):
            for i in range(nsh):
                jobs.append(("shard_edits", (rel, eav, i, nsh, others, quick)))
    return jobs


def _dispatch(job) -> E.Tally:
    return globals()[job[0]](job[1])


def run(ctx) -> None:
    jobs = plan(ctx.quick)
    total = E.pmap(_dispatch, jobs, ctx.seed)
    E.report(
        ctx,
        total,
        rule="histories = the repo's system / schema / eavesdrop / device / fault-log logs (quick: those <= 200 lines) with eavesdropping off and on, fed "
        "packet by packet to a real Gateway: unedited (every view after every packet, get_state+restore at every 5th / every prefix) and EVERY single "
        "edit: delete line i, duplicate line i, swap i/i+1, splice 40 lines of another system at every position, a neighbour's array broadcast 20 ms before each of ours, contradicting 000C statements, index re-addressing, and every extreme-value field mutation "
        "that stays inside the schema regex at every line; views are evaluated around the edit, every 25th packet and at the end; get_state + restore "
        "+ a received packet + a sent command at the edit, 10 packets later and at the end; spliced runs are compared with the unspliced run for the "
        "known system. distinct = histories",
        exhaustive=True,
    )
    ctx.assumptions += ["the state before an edit position equals the unedited log's (checked there in full)", "views = gwy.schema/params/status/known_list/_config and schema/params/status/traits of every device, system, zone and DHW"]


def replay(rep: dict):
    logcap.install()
    t = E.Tally()
    if rep.get("edit") is None:
        t.merge(shard_base((rep["log"], rep["eav"], False)))
    else:
        lines = GC.log(rep["log"])
        splice = [GC.log(o) for o in rep.get("others", [])]
        for lab, pos, hist in GC.single_edits(lines, splice_from=splice):
            if lab == rep["edit"]:
                _do_edit(t, rep["log"], rep["eav"], lines, lab, pos, hist, rep.get("others", []), {})
    return [(k, v["what"]) for k, v in t.viol.items()]
