"""C16 - saved state restores: snapshot -> fresh gateway -> snapshot is a fixpoint (E2, differential)."""

from __future__ import annotations

import json
import re
from datetime import datetime as dt

from checks import gwy_common as GC
from mc import enum as E
from mc import gwyworld as G
from mc import logcap

PROPERTY = "C16"
LEVEL = "exploration"


# how the gateways of the current shard are configured beyond the defaults (the same for the source gateway and every fresh one):
# {"cfg": config overrides, "kw": known_list= / gwy_id= ...}
_GW: dict = {"cfg": {}, "kw": {}}


def _cfg(eav: bool) -> dict:
    return {"disable_discovery": True, "enforce_known_list": False, "enable_eavesdrop": eav, **_GW["cfg"]}


def fresh_from(state, now: dt, eavesdrop: bool, with_schema: bool):
    """A brand-new gateway (new world, new loop) started the way Home Assistant does: saved schema as configuration,
    saved packets as cache; the wall clock is that of the snapshot."""
    from ramses_rf.helpers import shrink

    schema, pkts = state
    w = G.GwyWorld()
    w.set_time(now)
    kw = dict(schema) if with_schema else {}  # the saved schema as it was saved
    kw.update(_GW["kw"])
    gwy = w.add_gateway(config=_cfg(eavesdrop), cached_packets=dict(pkts), **kw)
    w.loop.quiesce(w.loop.time() + 5)
    return w, gwy


def judge_snapshot(t: E.Tally, state, gwy, w, include_expired: bool, rep: dict, where: str) -> None:
    """Content rules of one snapshot."""
    from ramses_tx import exceptions as exc
    from ramses_tx.message import Message
    from ramses_tx.packet import Packet

    schema, pkts = state
    for dtm, line in pkts.items():
        try:
            pkt = Packet.from_dict(dtm, line)
            msg = Message(pkt)
        except (exc.PacketInvalid, ValueError) as e:
            t.bad(f"C16:snapshot-holds-undecodable-packet:{type(e).__name__}", f"{where}: {dtm} {line!r}: {e}", rep)
            continue
        verb, code = line[4:6], pkt.code
        if verb == "RQ" or (verb == " W" and code != "0404"):
            t.bad(f"C16:snapshot-holds-{verb.strip()}:{code}", f"{where}: snapshot contains {line!r}", rep)
        if not include_expired:
            msg.__class__ = type(msg)  # (fresh message: its expiry is judged now, nothing cached)
            msg._gwy = gwy
            try:
                if msg._expired:
                    t.bad("C16:snapshot-holds-expired-packet" + (":313F" if code == "313F" else ""), f"{where}: {dtm} {line[4:60]!r} is expired at {w.now().isoformat(timespec='seconds')} but include_expired=False", rep)
            except Exception:  # noqa: BLE001
                pass


_FRAG = re.compile(r" I --- (\d\d:\d{6}) \S+ \S+ (000A|22C9) ")


def _frag(a: dict, b: dict, ga=None, gb=None) -> str:
    """A tag for two recognisable causes (each a finding of its own):
    ':array-fragment' - the packet sets differ ONLY in I|000A / I|22C9 packets (the codes the gateway merges with a preceding array
    of the same sender when they arrive within 3 s: the merged tail takes the array's slot and context);
    ':eavesdropped-class-differs' - they differ ONLY in packets sent by devices that the two gateways (eavesdropping on) hold as
    different classes."""
    lines = [a[k] for k in a if b.get(k) != a[k]] + [b[k] for k in b if k not in a]
    if lines and all(_FRAG.search(ln) for ln in lines):
        return ":array-fragment"
    if lines and ga is not None and gb is not None:
        srcs = {ln.split("#")[0].split()[3] for ln in lines}
        if all(type(ga.device_by_id.get(x)).__name__ != type(gb.device_by_id.get(x)).__name__ for x in srcs):
            return ":eavesdropped-class-differs"
    return ""


def cycle(t: E.Tally, w, gwy, eav: bool, include_expired: bool, rep: dict, where: str) -> None:
    try:
        s1 = gwy.get_state(include_expired=include_expired)
    except Exception as e:  # noqa: BLE001
        t.bad(f"C16:get_state-raises:{type(e).__name__}", f"{where}: {e}", rep)
        return
    t.n += 1
    now = w.now()
    # taken again at once (no packet, no time in between - only the callbacks the first call left on the loop) the schema is the same
    try:
        w.loop.quiesce(w.loop.time())
        again = gwy.get_state(include_expired=include_expired)
        if json.dumps(again[0], sort_keys=True) != json.dumps(s1[0], sort_keys=True):
            d = _sdiff(s1[0], again[0])
            t.bad(f"C16:schema-differs-when-snapshot-is-retaken-at-once:{d.split(': ')[0].rsplit('/', 1)[-1]}", f"{where} include_expired={include_expired}: {d}", rep)
            s1 = again  # (the rest is judged on the settled snapshot)
    except Exception as e:  # noqa: BLE001
        t.bad(f"C16:get_state-raises:{type(e).__name__}", f"{where} (second call): {e}", rep)
        return
    judge_snapshot(t, s1, gwy, w, include_expired, rep, where)
    if include_expired:
        # expired packets are transient by design (the first read that finds one expired drops it): the fixpoint is
        # demanded of the packets that are live at snapshot time; the expired ones may only disappear
        live = set(gwy.get_state(include_expired=False)[1])
        full1 = s1

        def same(a, b):
            return {k: v for k, v in a.items() if k in live} == {k: v for k, v in b.items() if k in live} and set(b) <= set(full1[1])
    else:

        def same(a, b):
            return a == b
    if not s1[1]:
        return
    t.nontrivial += 1
    for with_schema in (True,):
        try:
            w2, g2 = fresh_from(s1, now, eav, with_schema)
        except Exception as e:  # noqa: BLE001
            t.bad(f"C16:fresh-gateway-does-not-start:{type(e).__name__}:{GC._origin(e)}", f"{where}: a fresh gateway given the snapshot ({'with' if with_schema else 'without'} its schema) failed: {str(e)[:160]}", rep)
            continue
        try:
            try:
                s2 = g2.get_state(include_expired=include_expired)
            except Exception as e:  # noqa: BLE001
                t.bad(f"C16:get_state-raises-on-fresh-gateway:{type(e).__name__}", f"{where}: {e}", rep)
                continue
            if not same(s1[1], s2[1]):
                lost = sorted(set(s1[1]) - set(s2[1]))
                new = sorted(set(s2[1]) - set(s1[1]))
                chg = [k for k in s1[1] if k in s2[1] and s1[1][k] != s2[1][k]]
                what = f"lost {len(lost)} (e.g. {s1[1][lost[0]][4:50]!r})" if lost else (f"gained {len(new)}" if new else f"changed {len(chg)}")
                code = (s1[1][lost[0]] if lost else s2[1][new[0]] if new else s1[1][chg[0]]).split()[-3 if "#" not in (s1[1][lost[0]] if lost else "x") else -3]
                t.bad(f"C16:packets-not-a-fixpoint:{'with' if with_schema else 'no'}-schema:{'lost' if lost else 'gained' if new else 'changed'}{_frag(s1[1], s2[1], gwy if eav else None, g2)}", f"{where} include_expired={include_expired}: {len(s1[1])} packets saved, fresh gateway reports {len(s2[1])}: {what}", rep)
            if not eav and with_schema and json.dumps(s2[0], sort_keys=True) != json.dumps(s1[0], sort_keys=True):
                t.bad("C16:schema-not-a-fixpoint:with-schema" + _stag(s1[0], s2[0]), f"{where}: schema of the fresh gateway differs: {_sdiff(s1[0], s2[0])}", rep)
            # restoring the same snapshot again changes nothing
            r = w2.run(g2._restore_cached_packets(dict(s1[1])), horizon=30)
            w2.loop.quiesce(w2.loop.time() + 2)
            s3 = g2.get_state(include_expired=include_expired)
            if r[0] != "ok" or not same(s2[1], s3[1]) or json.dumps(s3[0], sort_keys=True) != json.dumps(s2[0], sort_keys=True):
                t.bad("C16:second-restore-changes-state" + _frag(s2[1], s3[1]), f"{where}: restoring the snapshot a second time: {r[0]}; packets {len(s2[1])}->{len(s3[1])}", rep)
        finally:
            w2.close()
    # the snapshot taken the moment start(cached_packets=...) returns (no further turn of the event loop) is complete too
    try:
        w3 = G.GwyWorld()
        w3.set_time(now)
        g3 = w3.add_gateway(config=_cfg(eav), start=False, **{**dict(s1[0]), **_GW["kw"]})

        async def start_and_snapshot():
            await g3.start(cached_packets=dict(s1[1]))
            return g3.get_state(include_expired=include_expired)

        r3 = w3.run(start_and_snapshot(), horizon=60)
        if r3[0] != "ok":
            t.bad(f"C16:fresh-gateway-does-not-start:{r3[0]}:immediate", f"{where}: start(cached_packets) + get_state: {r3}", rep)
        elif not same(s1[1], r3[1][1]):
            lost = sorted(set(s1[1]) - set(r3[1][1]))
            t.bad("C16:packets-not-a-fixpoint:snapshot-on-return-of-start" + (_frag(s1[1], r3[1][1], gwy if eav else None, g3) or (":last-packet" if lost == [max(s1[1])] else "")), f"{where} include_expired={include_expired}: {len(s1[1])} packets saved; get_state() called as soon as start(cached_packets=...) returned reports {len(r3[1][1])} (missing {[s1[1][k][4:40] for k in lost][:2]})", rep)
        w3.close()
    except Exception as e:  # noqa: BLE001
        t.bad(f"C16:fresh-gateway-does-not-start:{type(e).__name__}:immediate", f"{where}: {str(e)[:160]}", rep)
    # restoring into the gateway that already holds that state changes nothing
    r = w.run(gwy._restore_cached_packets(dict(s1[1])), horizon=30)
    w.loop.quiesce(w.loop.time() + 2)
    try:
        s4 = gwy.get_state(include_expired=include_expired)
        if r[0] != "ok" or not same(s1[1], s4[1]) or (not eav and json.dumps(s4[0], sort_keys=True) != json.dumps(s1[0], sort_keys=True)):
            t.bad("C16:restore-into-same-gateway-changes-state" + (_frag(s1[1], s4[1]) or ("" if eav or not same(s1[1], s4[1]) else _stag(s1[0], s4[0]))), f"{where}: {r[0]}; packets {len(s1[1])}->{len(s4[1])}; schema {_sdiff(s1[0], s4[0]) if not eav else '-'}", rep)
    except Exception as e:  # noqa: BLE001
        t.bad(f"C16:get_state-raises:{type(e).__name__}", f"{where} (after restoring into the same gateway): {e}", rep)


def _stag(a, b) -> str:
    """':zone-name-gained' when the ONLY difference between two schemas is zone names (_name) that were unknown and are now known:
    a zone's RP|0004 heard before the zone itself was known is kept by the controller but not shown by the zone; once the zone
    is known (from the saved schema) a restore of the same packets delivers it."""
    diffs = []

    def walk(x, y, p):
        if isinstance(x, dict) and isinstance(y, dict):
            for k in sorted(set(x) | set(y), key=str):
                walk(x.get(k), y.get(k), p + [k])
        elif x != y:
            diffs.append((p, x, y))

    walk(a, b, [])
    return ":zone-name-gained" if diffs and all(p[-1] == "_name" and x is None and y is not None for p, x, y in diffs) else ""


def _sdiff(a, b, p="") -> str:
    if isinstance(a, dict) and isinstance(b, dict):
        for k in sorted(set(a) | set(b), key=str):
            if a.get(k) != b.get(k):
                return _sdiff(a.get(k), b.get(k), f"{p}/{k}")
    return f"{p}: {str(a)[:70]} -> {str(b)[:70]}"


def run_history(t: E.Tally, lines: list, eav: bool, at: set[int], rep: dict, label: str) -> None:
    w = G.GwyWorld()
    gwy = w.add_gateway(config=_cfg(eav), **_GW["kw"])
    try:
        for k, ln in enumerate(lines):
            GC.feed(w, ln)
            if k in at:
                for inc in (False, True):
                    cycle(t, w, gwy, eav, inc, rep, f"{label} after line {k}")
    finally:
        w.close()


def _late_targets(lines: list, j: int, adjacent: bool = True) -> list[int]:
    """Where packet j may land: after its successor, and after the next packet that competes for its slot (same verb, source and
    code) - the collision a store keyed on (code, verb, context) has to get right."""
    f = lines[j][2].split()
    out = [j + 1] if adjacent else []
    for key_of in (lambda g: (g[0], g[2], g[-3]), lambda g: (g[0], g[2], g[-3], g[-1][:2])):
        for k in range(j + 1, len(lines)):
            if key_of(lines[k][2].split()) == key_of(f):
                if k not in out:
                    out.append(k)
                break
    return out


def shard(arg) -> E.Tally:
    kind, rel, eav, i, nsh, quick = arg
    logcap.install()
    t = E.Tally()
    lines = GC.retime(GC.log(rel))  # packets arrive with increasing, unique timestamps (some repo logs are curated out of order)
    n = len(lines)
    _GW["cfg"], _GW["kw"] = {}, {}
    if kind == "enforced":
        # the known list is enforced and names every device of the log but not the gateway, whose id the port reports (a serial
        # gateway): the traffic to and from the gateway's own address is part of the state and must survive the round trip
        ids: dict[str, int] = {}
        for ln in lines:
            for a in ln[2].split()[2:5]:
                if a[2:3] == ":" and a[:2] not in ("--", "63"):
                    ids[a] = ids.get(a, 0) + 1
        gws = sorted((a for a in ids if a[:2] == "18"), key=lambda a: -ids[a])
        _GW["cfg"] = {"enforce_known_list": True}
        _GW["kw"] = {"known_list": {a: {} for a in ids if a[:2] != "18"}, "gwy_id": gws[0] if gws else G.GWY_ID}
        kind = "prefix"
    if kind == "prefix":
        stride = (5 if n <= 120 else 25) if quick else 1
        pts = [p for p in range(0, n, stride)] + [n - 1]
        mine = {p for j, p in enumerate(pts) if j % nsh == i}
        # one replay per shard; snapshots taken at this shard's prefixes (a snapshot/restore into the same gateway is
        # itself required to change nothing, so later prefixes are still 'the state reached by the history')
        run_history(t, lines, eav, mine, {"log": rel, "eav": eav, "edit": None, "at": sorted(mine), "gw": {"cfg": dict(_GW["cfg"]), "kw": dict(_GW["kw"])}}, rel + ("[known list enforced]" if _GW["cfg"] else ""))
        t.by["prefixes"] += len(mine)
    elif kind == "writes":
        # every distinct request / write frame found anywhere in the repo's logs arrives in mid-history
        from mc import corpus

        extra = [fr for fr in corpus.distinct_frames() if fr[:2] in ("RQ", " W")]
        mid = n // 2
        seg = GC.restamp([("", "045", fr) for fr in extra], lines, mid)
        hist = GC.retime(lines[:mid] + seg + lines[mid:])
        run_history(t, hist, eav, {mid + len(seg), len(hist) - 1}, {"log": rel, "eav": eav, "edit": "writes"}, f"{rel}[+{len(extra)} RQ/W frames]")
        t.by["rq_w_frames"] += len(extra)
    elif kind == "first":
        # one packet heard before everything else (e.g. a zone's name or setpoint before the packets that make the zone known)
        for j in range(1, n):
            if j % nsh != i:
                continue
            hist = GC.retime([(lines[0][0], lines[j][1], lines[j][2])] + lines[:j] + lines[j + 1 :])
            run_history(t, hist, eav, {min(len(hist) - 1, j + 1), len(hist) - 1}, {"log": rel, "eav": eav, "edit": f"first@{j}"}, f"{rel}[first@{j}]")
            t.by["heard_first"] += 1
    elif kind == "unassign":
        # what the controller / UFH controller said about a role is later withdrawn ('nobody has this role'): the newer statement takes
        # the older one's place in the store, so whatever the source gateway still derives from the older one is not in the snapshot
        for j in range(n):
            d, r, fr = lines[j]
            ff = fr.split()
            if j % nsh != i or fr[:2] != "RP" or ff[-3] != "000C" or len(ff[-1]) != 12 or ff[-1][4:6] == "7F":
                continue
            empty = f"{fr[: fr.rfind(' ')]} {ff[-1][:4]}7FFFFFFF"
            hist = GC.retime(lines[: j + 1] + GC.restamp([(d, r, empty)], lines, j + 1) + lines[j + 1 :])
            run_history(t, hist, eav, {min(len(hist) - 1, j + 2), len(hist) - 1}, {"log": rel, "eav": eav, "edit": f"unassign@{j}"}, f"{rel}[unassign@{j}]")
            t.by["unassigned"] += 1
    elif kind == "late":
        # one packet overtaken: it is delivered after the one stamped after it, each keeping its own timestamp (timestamps given by
        # a remote MQTT gateway, or a curated log: arrival order is not timestamp order)
        for j in range(n - 1):
            if j % nsh != i:
                continue
            for k in _late_targets(lines, j, adjacent=n <= 60):
                hist = lines[:j] + lines[j + 1 : k + 1] + [lines[j]] + lines[k + 1 :]
                run_history(t, hist, eav, {k, len(hist) - 1}, {"log": rel, "eav": eav, "edit": f"late@{j}>{k}"}, f"{rel}[late@{j}>{k}]")
                t.by["overtaken"] += 1
    else:
        for j, (lab, pos, hist) in enumerate(GC.single_edits(lines, splice_from=None, fields=False)):
            if j % nsh != i or lab.startswith("swap"):
                continue
            hist = GC.retime(hist)
            run_history(t, hist, eav, {min(len(hist) - 1, pos + 1), len(hist) - 1}, {"log": rel, "eav": eav, "edit": lab}, f"{rel}[{lab}]")
            t.by["edits"] += 1
    if i == 0:
        t.sample({"log": rel, "kind": kind, "eavesdrop": eav})
    return t


def plan(quick: bool):
    logs = GC.available(GC.SYSTEM_LOGS + GC.OTHER_LOGS)
    jobs = []
    for rel in logs:
        n = len(GC.log(rel))
        if quick and n > 300:
            continue
        nsh = max(1, min(8, n // 40))
        for eav in (False, True):
            for i in range(nsh):
                jobs.append(("prefix", rel, eav, i, nsh, quick))
    for rel in GC.more_logs():
        n = len(GC.log(rel))
        nsh = max(1, min(4, n // 40))
        for eav in (False, True):
            for i in range(nsh):
                jobs.append(("prefix", rel, eav, i, nsh, quick))
    for rel in logs:
        if len(GC.log(rel)) <= 300:
            for eav in (False, True):
                jobs.append(("writes", rel, eav, 0, 1, quick))
    for rel in logs:  # the known list enforced, the gateway known from the port only
        n = len(GC.log(rel))
        if n <= (300 if quick else 10**6) and any(" 18:" in ln[2] for ln in GC.log(rel)):
            nsh = max(1, min(8, n // 40))
            for i in range(nsh):
                jobs.append(("enforced", rel, False, i, nsh, quick))
    shortest = sorted((r for r in logs if "#" not in r), key=lambda r: len(GC.log(r)))[: 3 if quick else 6]
    for rel in shortest:
        n = len(GC.log(rel))
        nsh = max(1, n // 10)
        for eav in (False, True):
            for i in range(nsh):
                jobs.append(("edit", rel, eav, i, nsh, quick))
    for rel in logs:
        n = len(GC.log(rel))
        if n <= (300 if quick else 600):
            nsh = max(1, n // 10)
            for eav in (False, True):
                for i in range(nsh):
                    jobs.append(("late", rel, eav, i, nsh, quick))
                    if any(" 000C " in ln[2] for ln in GC.log(rel)):
                        jobs.append(("unassign", rel, eav, i, nsh, quick))
                    if n <= (120 if quick else 300):
                        jobs.append(("first", rel, eav, i, nsh, quick))
    return jobs


def run(ctx) -> None:
    total = E.pmap(shard, plan(ctx.quick), ctx.seed)
    E.report(
        ctx,
        total,
        rule="gateway states = every 5th (quick; thorough: every) prefix of the repo's system/schema/eavesdrop/device logs and the end of every single "
        "deletion/duplication of the shortest logs, eavesdropping off/on; at each: get_state(include_expired off/on) -> content rules (every packet "
        "decodes, no RQ, no W but 0404, none expired unless asked, judged on freshly decoded messages) -> a brand-new gateway on a new loop started "
        "with the packets (+ the schema as configuration, and without) -> get_state again must give the same packets (and schema with eavesdropping "
        "off) -> restoring the snapshot again, and into the original gateway, changes nothing. non-trivial = non-empty snapshots",
        exhaustive=True,
    )
    ctx.assumptions += ["the fresh gateway's wall clock is that of the snapshot", "schema equality is demanded with eavesdropping off only (as the statement says)"]


def replay(rep: dict):
    logcap.install()
    t = E.Tally()
    lines = GC.retime(GC.log(rep["log"]))
    gw = rep.get("gw") or {}
    _GW["cfg"], _GW["kw"] = dict(gw.get("cfg") or {}), dict(gw.get("kw") or {})
    if rep.get("edit") is None:
        run_history(t, lines, rep["eav"], set(rep["at"]), rep, rep["log"])
    elif rep["edit"] == "writes":
        t.merge(shard(("writes", rep["log"], rep["eav"], 0, 1, True)))
    elif rep["edit"].startswith("first@"):
        j = int(rep["edit"][6:])
        hist = GC.retime([(lines[0][0], lines[j][1], lines[j][2])] + lines[:j] + lines[j + 1 :])
        run_history(t, hist, rep["eav"], {min(len(hist) - 1, j + 1), len(hist) - 1}, rep, f"{rep['log']}[first@{j}]")
    elif rep["edit"].startswith("unassign@"):
        j = int(rep["edit"][9:])
        d, r, fr = lines[j]
        empty = f"{fr[: fr.rfind(' ')]} {fr.split()[-1][:4]}7FFFFFFF"
        hist = GC.retime(lines[: j + 1] + GC.restamp([(d, r, empty)], lines, j + 1) + lines[j + 1 :])
        run_history(t, hist, rep["eav"], {min(len(hist) - 1, j + 2), len(hist) - 1}, rep, f"{rep['log']}[unassign@{j}]")
    elif rep["edit"].startswith("late@"):
        j, k = (int(x) for x in rep["edit"][5:].split(">"))
        hist = lines[:j] + lines[j + 1 : k + 1] + [lines[j]] + lines[k + 1 :]
        run_history(t, hist, rep["eav"], {k, len(hist) - 1}, rep, f"{rep['log']}[late@{j}>{k}]")
    else:
        for lab, pos, hist in GC.single_edits(lines, splice_from=None, fields=False):
            if lab == rep["edit"]:
                hist = GC.retime(hist)
                run_history(t, hist, rep["eav"], {min(len(hist) - 1, pos + 1), len(hist) - 1}, rep, f"{rep['log']}[{lab}]")
    return [(k, v["what"]) for k, v in t.viol.items()]
