"""C14 - state is fresh: attributes reflect the newest live message, stale data ages out (E2 + E3)."""

from __future__ import annotations

import itertools
from datetime import datetime as dt, timedelta as td

from mc import enum as E
from mc import gwyworld as G
from mc import logcap

PROPERTY = "C14"
LEVEL = "model_checking"

CTL, GWY = "01:145038", G.GWY_ID
ZONES = ("00", "01", "0B")
SCHEMA = {
    "main_tcs": CTL,
    CTL: {
        "system": {"appliance_control": "13:000001"},
        "stored_hotwater": {"sensor": "07:000001"},
        "zones": {
            "00": {"class": "radiator_valve", "sensor": "34:000001", "actuators": ["04:000001"]},
            "01": {"class": "radiator_valve", "sensor": "34:000002", "actuators": ["04:000002"]},
            "0B": {"class": "radiator_valve", "sensor": "34:000003", "actuators": ["04:000003"]},
        },
    },
    "orphans_heat": ["13:000002", "10:000001"],
    "orphans_hvac": ["32:000001", "32:000002", "37:000001"],
}
KNOWN = {"32:000001": {"class": "FAN"}, "32:000002": {"class": "HUM"}, "37:000001": {"class": "CO2"}, "10:000001": {"class": "OTB"}}
OTB, FAN, HUM, CO2 = "10:000001", "32:000001", "32:000002", "37:000001"
_31DA = {
    1: "00EF007FFF353406D6089808E006A8F000000264640000EFEF15CF159700",
    2: "00EF007FFF2B27060E0848089605F9F000445800000000EFEF02D2154400",
}
UFC = "02:044328"
V = {1: "07D0", 2: "0834"}  # 20.00, 21.00
VAL = {1: 20.0, 2: 21.0}
SUBSETS = (("00", "01"), ("01", "0B"), ("00", "01", "0B"))


def temp_hex(v, z):
    return f"{int(VAL[v] * 100) + ZONES.index(z):04X}"


def temp_val(v, z):
    return VAL[v] + ZONES.index(z) / 100


def _decoded(frame: str, dev: str, attrs: tuple) -> dict:
    """Expected attribute values = what the library's own decoder makes of the frame (freshness is the subject here, not decoding)."""
    from ramses_tx.message import Message
    from ramses_tx.packet import Packet

    p = Message(Packet(dt(2024, 1, 1), "045 " + frame)).payload
    return {(dev, a): p[a] for a in attrs if a in p}


# --- the alphabet: letter -> (frame, {(entity, attribute): value}) -----------------------------------
def letters() -> dict:
    L = {}
    for v in (1, 2):
        for z in ZONES:
            L[f"T_rp({z},{v})"] = (f"RP --- {CTL} {GWY} --:------ 30C9 003 {z}{temp_hex(v, z)}", {(z, "temperature"): temp_val(v, z)})
            L[f"SP_rp({z},{v})"] = (f"RP --- {CTL} {GWY} --:------ 2309 003 {z}{temp_hex(v, z)}", {(z, "setpoint"): temp_val(v, z)})
            L[f"MODE({z},{v})"] = (
                f"RP --- {CTL} {GWY} --:------ 2349 007 {z}{temp_hex(v, z)}0{v}FFFFFF",
                {(z, "setpoint"): temp_val(v, z), (z, "mode.mode"): {1: "advanced_override", 2: "permanent_override"}[v]},
            )
            L[f"CFG_rp({z},{v})"] = (f"RP --- {CTL} {GWY} --:------ 000A 006 {z}10{temp_hex(v, z)}0DAC", {(z, "config.min_temp"): temp_val(v, z)})
            L[f"WIN({z},{v})"] = (f"RP --- {CTL} {GWY} --:------ 12B0 003 {z}{'C800' if v == 1 else '0000'}", {(z, "window_open"): v == 1})
        for S in SUBSETS:
            n = len(S)
            L[f"T_arr({'+'.join(S)},{v})"] = (
                f" I --- {CTL} --:------ {CTL} 30C9 {3 * n:03d} " + "".join(z + temp_hex(v, z) for z in S),
                {(z, "temperature"): temp_val(v, z) for z in S},
            )
            L[f"SP_arr({'+'.join(S)},{v})"] = (
                f" I --- {CTL} --:------ {CTL} 2309 {3 * n:03d} " + "".join(z + temp_hex(v, z) for z in S),
                {(z, "setpoint"): temp_val(v, z) for z in S},
            )
            L[f"CFG_arr({'+'.join(S)},{v})"] = (
                f" I --- {CTL} --:------ {CTL} 000A {6 * n:03d} " + "".join(z + "10" + temp_hex(v, z) + "0DAC" for z in S),
                {(z, "config.min_temp"): temp_val(v, z) for z in S},
            )
        L[f"DHW_T_rp({v})"] = (f"RP --- {CTL} {GWY} --:------ 1260 003 00{V[v]}", {("HW", "temperature"): VAL[v]})
        L[f"DHW_T_i({v})"] = (f" I --- 07:000001 --:------ 07:000001 1260 003 00{V[v]}", {("07:000001", "temperature"): VAL[v]})
        L[f"DHW_P({v})"] = (f"RP --- {CTL} {GWY} --:------ 10A0 006 00{'1388' if v == 1 else '157C'}0003E8", {("HW", "setpoint"): 50.0 if v == 1 else 55.0})
        L[f"DHW_M({v})"] = (f"RP --- {CTL} {GWY} --:------ 1F41 006 000{v - 1}0{v}FFFFFF", {("HW", "mode.active"): v == 2})
        L[f"SYS({v})"] = (f" I --- {CTL} --:------ {CTL} 2E04 008 0{v}FFFFFFFFFFFF00", {("TCS", "system_mode.system_mode"): {1: "heat_off", 2: "eco_boost"}[v]})
        for d in ("13:000001", "13:000002"):
            L[f"RLY({d[-1]},{v})"] = (f"RP --- {d} {GWY} --:------ 0008 002 00{'C8' if v == 1 else '00'}", {(d, "relay_demand"): 1.0 if v == 1 else 0.0})
            L[f"ACT({d[-1]},{v})"] = (f" I --- {d} --:------ {d} 3EF0 003 00{'C8' if v == 1 else '00'}FF", {(d, "actuator_state.modulation_level"): 1.0 if v == 1 else 0.0})
        # an OpenTherm bridge (its RAMSES codes), a ventilation unit, a humidity and a CO2 sensor
        L[f"OTB_T({v})"] = (f"RP --- {OTB} {GWY} --:------ 3200 003 00{V[v]}", {(OTB, "boiler_output_temp"): VAL[v]})
        L[f"OTB_RT({v})"] = (f"RP --- {OTB} {GWY} --:------ 3210 003 00{V[v]}", {(OTB, "boiler_return_temp"): VAL[v]})
        L[f"OTB_SP({v})"] = (f"RP --- {OTB} {GWY} --:------ 22D9 003 00{V[v]}", {(OTB, "boiler_setpoint"): VAL[v]})
        L[f"OTB_DHW({v})"] = (f"RP --- {OTB} {GWY} --:------ 1260 003 00{V[v]}", {(OTB, "dhw_temp"): VAL[v]})
        L[f"FAN_DA({v})"] = (f" I --- {FAN} --:------ {FAN} 31DA 030 {_31DA[v]}", _decoded(f" I --- {FAN} --:------ {FAN} 31DA 030 {_31DA[v]}", FAN, ("exhaust_fan_speed", "indoor_humidity", "supply_temp", "exhaust_temp", "bypass_position", "remaining_mins", "fan_info")))
        L[f"HUM_H({v})"] = (f" I --- {HUM} --:------ {HUM} 12A0 007 00{'2B' if v == 1 else '3F'}08337FFF00", {(HUM, "indoor_humidity"): 0.43 if v == 1 else 0.63})
        L[f"CO2_L({v})"] = (f" I --- {CO2} --:------ {CO2} 1298 003 00{'0247' if v == 1 else '0300'}", {(CO2, "co2_level"): 583 if v == 1 else 768})
        # the controller's own domain demands (the system keeps these in per-domain tables of its own)
        L[f"TCS_HD({v})"] = (f" I --- {CTL} --:------ {CTL} 3150 002 FC{'64' if v == 1 else '32'}", {("TCS", "heat_demands.FC"): 0.5 if v == 1 else 0.25, ("TCS", "heat_demand"): 0.5 if v == 1 else 0.25})
        for dom in ("FC", "F9", "FA"):
            L[f"TCS_RD({dom},{v})"] = (f" I --- {CTL} --:------ {CTL} 0008 002 {dom}{'C8' if v == 1 else '00'}", {("TCS", f"relay_demands.{dom}"): 1.0 if v == 1 else 0.0})
        # an underfloor-heating controller's own demands (not part of the history groups: expiry only)
        L[f"UFC_HD({v})"] = (f" I --- {UFC} --:------ {UFC} 3150 002 FC{'64' if v == 1 else '32'}", {(UFC, "heat_demand"): 0.5 if v == 1 else 0.25})
        L[f"UFC_RD({v})"] = (f" I --- {UFC} --:------ {UFC} 0008 002 FC{'64' if v == 1 else '32'}", {(UFC, "relay_demand"): 0.5 if v == 1 else 0.25})
        for k, z in enumerate(ZONES[:2]):
            d = f"04:00000{k + 1}"
            L[f"TRV_T({z},{v})"] = (f" I --- {d} --:------ {d} 30C9 003 00{temp_hex(v, z)}", {(d, "temperature"): temp_val(v, z)})
            L[f"TRV_SP({z},{v})"] = (f" I --- {d} --:------ {CTL} 2309 003 {z}{temp_hex(v, z)}", {(d, "setpoint"): temp_val(v, z)})
    return L


GROUPS = {
    "temperature": lambda k: k.startswith(("T_rp", "T_arr")) or k in ("SP_rp(00,1)", "CFG_arr(00+01,2)", "TRV_T(00,2)"),
    "setpoint": lambda k: k.startswith(("SP_rp", "SP_arr", "MODE")) or k in ("T_arr(00+01+0B,1)", "TRV_SP(01,2)"),
    "config+window": lambda k: k.startswith(("CFG_rp", "CFG_arr", "WIN")),
    "dhw+system": lambda k: k.startswith(("DHW", "SYS", "TCS_HD")) or k in ("TCS_RD(FC,1)", "TCS_RD(FA,2)") or k in ("T_rp(00,1)", "SP_arr(00+01,2)", "RLY(1,1)"),
    "otb+hvac": lambda k: k.startswith(("OTB", "FAN", "HUM", "CO2")) or k in ("T_rp(00,1)", "DHW_T_rp(2)"),
    "devices": lambda k: k.startswith(("RLY", "ACT", "TRV")) or k in ("T_rp(00,2)", "SP_rp(01,1)"),
}


def read(gwy, ent: str, attr: str):
    tcs = gwy.tcs
    if ent == "TCS":
        obj = tcs
    elif ent == "HW":
        obj = tcs.dhw
    elif ":" in ent:
        obj = gwy.device_by_id[ent]
    else:
        obj = tcs.zone_by_idx[ent]
    first, _, rest = attr.partition(".")
    val = getattr(obj, first)
    if rest and val is not None:
        val = val.get(rest)
    return val


def new_world(dhw: bool = True):
    import copy

    w = G.GwyWorld()
    schema = copy.deepcopy(SCHEMA)
    if not dhw:
        del schema[CTL]["stored_hotwater"]
    gwy = w.add_gateway(config={"disable_discovery": True, "enforce_known_list": False}, known_list=dict(KNOWN), **schema)
    w.set_time(dt(2024, 1, 1, 12, 0, 0))
    return w, gwy


def run_history(t: E.Tally, hist: tuple, L: dict, group: str) -> None:
    w, gwy = new_world()
    ref: dict = {}
    try:
        for step, name in enumerate(hist):
            frame, eff = L[name]
            w.set_time(w.now() + td(seconds=1))
            w.rx(frame)
            ref.update(eff)
            for (ent, attr), want in ref.items():
                try:
                    got = read(gwy, ent, attr)
                except Exception as e:  # noqa: BLE001
                    t.bad(f"C14:attribute-raises:{attr}:{type(e).__name__}", f"after {list(hist[: step + 1])}: {ent}.{attr} raised {type(e).__name__}: {e}", {"hist": list(hist), "group": group})
                    return
                if got != want:
                    newest = next(n for n in reversed(hist[: step + 1]) if (ent, attr) in L[n][1])
                    t.bad(
                        f"C14:not-the-newest-value:{attr}:{newest.split('(')[0]}",
                        f"after {list(hist[: step + 1])}: {ent}.{attr} = {got!r}, the newest message for it ({newest}) says {want!r}",
                        {"hist": list(hist), "group": group},
                    )
                    return
        t.n += 1
    finally:
        w.close()


def shard_hist(arg) -> E.Tally:
    group, i, n, depth = arg
    logcap.install()
    t = E.Tally()
    L = letters()
    names = sorted(k for k in L if GROUPS[group](k))
    j = 0
    for d in range(1, depth + 1):
        for hist in itertools.product(names, repeat=d):
            if d < depth and any(hist == h[:d] for h in ()):
                continue
            j += 1
            if j % n != i:
                continue
            if d < depth:
                continue  # every shorter history is a prefix of a longer one (checked after each step)
            run_history(t, hist, L, group)
            t.nontrivial += 1
            if j % 9973 == 0:
                t.sample(list(hist))
    t.by[group] = t.n
    return t


# --- expiry ---------------------------------------------------------------------------------------
class _Clock:
    def __init__(self):
        self.now = dt(2024, 1, 1)

    def _dt_now(self):
        return self.now


def kinds():
    """One frame per message kind with its own lifetime rule (code/verb; array-ness; OpenTherm id class)."""
    from mc import corpus

    seen = {}
    for fr in corpus.distinct_frames():
        f = fr.split()
        if fr[:2] in ("RQ", " W"):
            continue
        key = (fr[:2], f[-3], len(f[-1]) > 6 if f[-3] in ("000A", "2309", "30C9") else None, f[-1][4:6] if f[-3] == "3220" else None)
        seen.setdefault(key, fr)
    return list(seen.values())


# The lifetime of each message kind (seconds), written down from the documented rules (pkt_lifespan's table, the 'lifespan' entries of
# CODES_SCHEMA, the OpenTherm data-id classes) - the reference the statement's "a lifetime fixed by its kind" is judged against. Copied,
# not imported: a change that makes a kind live shorter or longer than this shows up as expired-before / not-expired-after.
REF_CODE_LIFE = {"0004": 86400, "000A": 86400, "0100": 86400, "1060": 86400, "10A0": 14400, "1100": 86400, "1260": 3600, "12A0": 3600, "12B0": 3600,
                 "1F41": 14400, "2309": 1800, "2349": 14400, "2E04": 14400, "30C9": 3600, "313F": 3, "3150": 1200}  # fmt: skip
REF_OT_SCHEMA, REF_OT_PARAMS = {0x03, 0x06, 0x7F}, {0x0E, 0x0F, 0x30, 0x31, 0x38, 0x39}


def ref_life(verb: str, code: str, payload: str, has_array: bool):
    """-> seconds, or None where the rule is not a constant of the kind (1F09: from the payload, checked on its own)."""
    if verb in ("RQ", " W"):
        return 0
    if code in ("0005", "000C", "0404", "10E0"):
        return 86400
    if code == "0006":
        return 3600
    if code == "000A" and has_array:
        return 3600
    if code == "1F09":
        return None
    if code == "1FC9" and verb == "RP":
        return 86400
    if code in ("2309", "30C9") and has_array:
        return 360
    if code == "3220":
        mid = int(payload[4:6], 16)
        return 21600 * 2.1 if mid in REF_OT_SCHEMA else 3600 * 2.1 if mid in REF_OT_PARAMS else 300 * 2.1
    return REF_CODE_LIFE.get(code, 3600)


def ot_frames():
    """An RP|3220 (Read-Ack, even parity) for every data-id: the lifetime of an OpenTherm message depends on the class of its id."""
    for mid in range(256):
        for val in (0x0000, 0x1900):
            word = (0x40 << 24) | (mid << 16) | val
            if bin(word).count("1") % 2:
                word |= 0x80 << 24
            yield f"RP --- {OTB} 18:006402 --:------ 3220 005 00{word:08X}"


def check_expiry(t: E.Tally, frame: str, lifetime_from_payload: float | None = None, prime: str | None = None) -> None:
    from ramses_tx import exceptions as exc
    from ramses_tx.message import Message
    from ramses_tx.packet import Packet

    if prime is not None:  # from import-time module state, another kind of the same verb/code is decoded first
        from mc import modstate

        modstate.snapshot()
        modstate.reset()
        try:
            if prime:  # ("" = from import-time state, nothing decoded first)
                Packet(dt(2024, 1, 1), "045 " + prime)
        except Exception:  # noqa: BLE001
            return

    t0 = dt(2024, 1, 1)

    def fresh():
        m = Message(Packet(t0, "045 " + frame))
        clk = _Clock()
        m._gwy = clk
        return m, clk

    try:
        m, clk = fresh()
    except exc.PacketInvalid:
        return
    t.n += 1
    rep = {"frame": frame}
    if prime is not None:
        rep["prime"] = prime
    life = m._pkt._lifespan
    f = frame.split()
    ref = ref_life(frame[:2], f[-3], f[-1], bool(m._pkt._has_array))
    if lifetime_from_payload is not None:
        L = td(seconds=lifetime_from_payload)
    elif ref is not None:
        L = td(seconds=ref)  # the kind's documented lifetime, not whatever the packet object says
    elif life is False or life is True:
        L = None
    else:
        L = life
    offs = []
    if L is not None and L > td(0):
        offs = [td(0), L - td(seconds=1), L, L * 2, L * 2 + td(seconds=3) - td(microseconds=1), L * 2 + td(seconds=3), L * 2 + td(seconds=10), L * 10]
    else:
        offs = [td(0), td(hours=1), td(days=8), td(days=400)]
    offs = sorted(o for o in offs if o >= td(0))
    # (1) fresh object at each offset; (2) the same object along increasing offsets
    prev = False
    same, clk_same = fresh()
    for o in offs:
        m, clk = fresh()
        clk.now = t0 + o
        clk_same.now = t0 + o
        try:
            e1 = m._expired
            e2 = same._expired
        except Exception as e:  # noqa: BLE001
            t.bad(f"C14:_expired-raises:{type(e).__name__}", f"{frame!r} at +{o}: {e}", rep)
            return
        if L is not None and L > td(0):
            if o < L and (e1 or e2):
                t.bad("C14:expired-before-its-lifetime", f"{frame!r}: lifetime {L}, expired at +{o} (fresh={e1}, same object={e2})", rep)
            if o >= L * 2 + td(seconds=10) and not (e1 and e2):
                t.bad("C14:not-expired-after-twice-its-lifetime", f"{frame!r}: lifetime {L}, not expired at +{o} (fresh={e1}, same object={e2})", rep)
        if prev and not e2:
            t.bad("C14:expiry-un-happens", f"{frame!r}: expired earlier, not expired at +{o} on the same object", rep)
        prev = prev or e2
    t.nontrivial += 1


def shard_expiry(arg) -> E.Tally:
    i, n, quick = arg
    logcap.install()
    t = E.Tally()
    from mc import modstate
    import ramses_rf  # noqa: F401
    import ramses_tx.message  # noqa: F401

    modstate.snapshot()  # (before this worker decodes anything: the library's module-level state as it is after import)
    for j, fr in enumerate(kinds() + list(ot_frames())):
        if j % n == i:
            check_expiry(t, fr)
    # the sync-cycle countdown: every 16-bit word
    for w in range(0, 65536):
        if w % n == i:
            check_expiry(t, f" I --- {CTL} --:------ {CTL} 1F09 003 FF{w:04X}", lifetime_from_payload=w / 10)
    t.by["expiry"] = t.n
    return t


_PRIMED = r"""
import json, sys
sys.path.insert(0, {verif!r})
import ramses_rf, ramses_tx.message
from mc import modstate, logcap, enum as E
modstate.snapshot()   # nothing has been decoded yet in this process: the library's module-level state as it is after import
from checks import c14_freshness as C
logcap.install()
t = E.Tally()
groups = {{}}
for fr in C.kinds():
    groups.setdefault((fr[:2], fr.split()[-3]), []).append(fr)
for key, frs in sorted(groups.items()):
    for a in frs:
        for b in frs:
            if a is not b:
                C.check_expiry(t, b, prime=a)
json.dump({{"n": t.n, "viol": {{k: [v["what"], v["replay"]] for k, v in t.viol.items()}}}}, sys.stdout)
"""


def shard_primed(_arg) -> E.Tally:
    """The lifetime of a kind does not depend on which form of its code was heard first: in a process of its own (module state as after
    import), for every two kinds of one verb/code (array and single-zone form, two OpenTherm ids ...) each is judged after the other."""
    import json
    import os
    import subprocess
    import sys

    here = os.path.dirname(os.path.dirname(os.path.abspath(__file__)))
    r = subprocess.run([sys.executable, "-c", _PRIMED.format(verif=here)], capture_output=True, text=True, timeout=600, env=dict(os.environ))
    if r.returncode != 0:
        raise RuntimeError(f"primed-expiry process failed: {r.stderr[-400:]}")
    d = json.loads(r.stdout)
    t = E.Tally()
    t.n = d["n"]
    for k, (what, rep) in d["viol"].items():
        t.bad(k + ":after-another-form-of-the-code", what, rep)
    t.by["primed_expiry_cases"] = d["n"]
    return t


ATTR_EXPIRY = [
    ("T_rp(01,1)", ("01", "temperature")),
    ("T_arr(00+01,2)", ("00", "temperature")),
    ("SP_rp(0B,1)", ("0B", "setpoint")),
    ("MODE(01,2)", ("01", "mode.mode")),
    ("CFG_rp(00,1)", ("00", "config.min_temp")),
    ("WIN(01,1)", ("01", "window_open")),
    ("DHW_T_rp(1)", ("HW", "temperature")),
    ("DHW_P(2)", ("HW", "setpoint")),
    ("SYS(2)", ("TCS", "system_mode.system_mode")),
    ("RLY(1,1)", ("13:000001", "relay_demand")),
    ("ACT(2,1)", ("13:000002", "actuator_state.modulation_level")),
    ("TRV_T(00,2)", ("04:000001", "temperature")),
    ("TCS_HD(1)", ("TCS", "heat_demands.FC")),
    ("TCS_HD(2)", ("TCS", "heat_demand")),
    ("TCS_RD(F9,1)", ("TCS", "relay_demands.F9")),
    ("TCS_RD(FA,1)", ("TCS", "relay_demands.FA")),
    ("OTB_T(1)", (OTB, "boiler_output_temp")),
    ("OTB_SP(2)", (OTB, "boiler_setpoint")),
    ("OTB_DHW(1)", (OTB, "dhw_temp")),
    ("FAN_DA(1)", (FAN, "exhaust_fan_speed")),
    ("FAN_DA(2)", (FAN, "indoor_humidity")),
    ("HUM_H(1)", (HUM, "indoor_humidity")),
    ("CO2_L(2)", (CO2, "co2_level")),
    ("UFC_HD(1)", (UFC, "heat_demand")),
    ("UFC_RD(2)", (UFC, "relay_demand")),
]


def shard_attr_expiry(arg) -> E.Tally:
    """Once its message has expired an attribute reads as unknown - on the first read and every later one."""
    i, n = arg
    logcap.install()
    t = E.Tally()
    L = letters()
    for j, (name, (ent, attr)) in enumerate(ATTR_EXPIRY):
        if j % n != i:
            continue
        for other, dhw in ((None, True), ("WIN(0B,2)", True), ("SYS(1)", True), (None, False), ("WIN(0B,2)", False)):
            if not dhw and ent == "HW":
                continue
            if other and (ent, attr) in L[other][1]:
                other = "T_rp(0B,1)"  # unrelated traffic must really be unrelated to the attribute under test
            w, gwy = new_world(dhw)
            try:
                frame, eff = L[name]
                w.rx(frame)
                t.n += 1
                v0 = read(gwy, ent, attr)
                msgs = [m for d in gwy.devices for m in d._msg_db] + [m for m in gwy.tcs._msgs.values()]
                life = max((m._pkt._lifespan for m in msgs if str(m._pkt)[:60] in frame or frame.strip()[:50] in str(m._pkt)), default=None, key=lambda x: x if isinstance(x, td) else td(0))
                if not isinstance(life, td) or life <= td(0):
                    continue
                w.set_time(w.now() + life * 2 + td(seconds=30))
                if other:
                    w.rx(L[other][0])  # unrelated traffic after the expiry
                reads = []
                for _ in range(3):
                    reads.append(read(gwy, ent, attr))
                    w.loop.settle()
                w.set_time(w.now() + td(days=3))  # ... and it must not come back later
                reads.append(read(gwy, ent, attr))
                t.nontrivial += 1
                rep = {"attr_expiry": name, "other": other, "dhw": dhw}
                if reads[0] is not None:
                    t.bad("C14:expired-value-still-reported:first-read", f"{name} then +{life * 2 + td(seconds=30)}: {ent}.{attr} reads {reads} (was {v0!r}, lifetime {life})", rep)
                if any(r is not None for r in reads[1:]):
                    t.bad(f"C14:expired-value-lingers:{attr}", f"{name}: {ent}.{attr} reads {reads}", rep)
            finally:
                w.close()
    return t


STAGGER_FAMILIES = ("T_rp", "SP_rp", "MODE", "CFG_rp", "WIN", "RLY", "ACT", "TRV_T", "TRV_SP", "TCS_RD")


def shard_staggered(arg) -> E.Tally:
    """Two messages of one kind for two different zones/devices, received 1.5 lifetimes apart: when the older one has
    expired (and been read, which makes the library drop it) the younger one is still live and must still be reported."""
    i, n = arg
    logcap.install()
    t = E.Tally()
    L = letters()
    fam: dict[str, list[str]] = {}
    for name in L:
        f = name.split("(")[0]
        if f in STAGGER_FAMILIES and name.endswith(",1)"):
            fam.setdefault(f, []).append(name)
    j = 0
    for f, names in sorted(fam.items()):
        for a in names:
            for b in names:
                if a == b or set(L[a][1]) & set(L[b][1]):  # (two different attributes: other zone / device / domain)
                    continue
                for order in ("old-first", "young-first"):
                    j += 1
                    if j % n != i:
                        continue
                    w, gwy = new_world(True)
                    try:
                        w.rx(L[a][0])
                        msgs = [m for d in gwy.devices for m in d._msg_db] + [m for m in gwy.tcs._msgs.values()]
                        life = max((m._pkt._lifespan for m in msgs if L[a][0].strip()[:50] in str(m._pkt)), default=None, key=lambda x: x if isinstance(x, td) else td(0))
                        if not isinstance(life, td) or life <= td(0):
                            continue
                        t.n += 1
                        w.set_time(w.now() + life * 1.5)
                        w.rx(L[b][0])
                        w.set_time(w.now() + life * 0.5 + td(seconds=30))  # a: 2L+30 s old (expired), b: 0.5L+30 s old (live)
                        seq = []
                        reads_b = []
                        steps = (("a", a), ("a", a), ("b", b), ("b", b)) if order == "old-first" else (("b", b), ("a", a), ("a", a), ("b", b))
                        for tag, nm in steps:
                            for (ent, attr), want in L[nm][1].items():
                                got = read(gwy, ent, attr)
                                seq.append((tag, ent, attr, got))
                                if tag == "b":
                                    reads_b.append((ent, attr, want, got))
                            w.loop.settle()
                        t.nontrivial += 1
                        rep = {"staggered": [a, b, order]}
                        # the older one is 2L+30 s old: from its second read on (the first read is the known first-read finding) it is unknown,
                        # however live its neighbour of the same kind is
                        last_a = {}
                        for tag, ent, attr, got in seq:
                            if tag == "a":
                                last_a[(ent, attr)] = got
                        for (ent, attr), got in last_a.items():
                            if got is not None and (ent, attr) not in L[b][1]:
                                t.bad(f"C14:expired-value-lingers-while-another-is-live:{attr}", f"{a} at t0, {b} at t0+1.5L (L={life}); at t0+2L+30s ({order}): the second read of {ent}.{attr} still gives {got!r}; reads: {seq}", rep)
                                break
                        for ent, attr, want, got in reads_b:
                            if got != want:
                                t.bad(f"C14:live-value-lost-when-another-expires:{attr}", f"{a} at t0, {b} at t0+1.5L (L={life}); at t0+2L+30s ({order}): {ent}.{attr} reads {got!r}, its message is only 0.5L+30s old and says {want!r}; reads: {seq}", rep)
                                break
                    finally:
                        w.close()
    t.by["staggered"] = t.n
    return t


def shard_renewal(arg) -> E.Tally:
    """The same attribute is re-announced (the same value again, or another) 0.5 / 1.5 / 2+ lifetimes after the first announcement;
    an application callback (gwy.add_msg_handler) may read the attribute as each message is dispatched, and the attribute may be read
    just before the second message arrives: whatever was read when, from the moment the second message has been processed the
    attribute reports ITS value (it is live: at most a few seconds old) - on every read, until it expires in turn."""
    i, n = arg
    logcap.install()
    t = E.Tally()
    L = letters()
    j = 0
    for name, (ent, attr) in ATTR_EXPIRY:
        other = name[:-2] + ("2)" if name.endswith("1)") else "1)")
        for second in (name, other):
            for gap in (0.5, 1.5, 2.0):
                for cb_reads in (False, True):
                    for read_before in (False, True):
                        j += 1
                        if j % n != i:
                            continue
                        w, gwy = new_world(True)
                        try:
                            seen = []
                            if cb_reads:
                                gwy.add_msg_handler(lambda msg: seen.append(read(gwy, ent, attr)))
                            w.rx(L[name][0])
                            w.loop.settle()
                            msgs = [m for d in gwy.devices for m in d._msg_db] + [m for m in gwy.tcs._msgs.values()]
                            life = max((m._pkt._lifespan for m in msgs if L[name][0].strip()[:50] in str(m._pkt)), default=None, key=lambda x: x if isinstance(x, td) else td(0))
                            if not isinstance(life, td) or life <= td(0):
                                continue
                            t.n += 1
                            w.set_time(w.now() + life * gap + (td(seconds=60) if gap >= 2 else td(0)))
                            if read_before:
                                seen.append(read(gwy, ent, attr))  # (no turn of the loop before the packet arrives)
                            w.rx(L[second][0])
                            w.loop.settle()
                            w.set_time(w.now() + td(seconds=2))
                            want = L[second][1][(ent, attr)]
                            reads = []
                            for _ in range(3):
                                reads.append(read(gwy, ent, attr))
                                w.loop.settle()
                            t.nontrivial += 1
                            if any(r != want for r in reads):
                                same = "same-value" if second == name else "new-value"
                                t.bad(
                                    f"C14:re-announced-value-lost:{same}:{attr}",
                                    f"{name} at t0, {second} at t0+{gap}L{'+60s' if gap >= 2 else ''} (L={life}), app callback reads={cb_reads}, read just before={read_before}: "
                                    f"2 s after the second message {ent}.{attr} reads {reads}, its message says {want!r}",
                                    {"renewal": True},
                                )
                            elif not any(L[second][0].strip() in ln for ln in gwy.get_state()[1].values()):
                                t.bad(
                                    f"C14:re-announced-message-missing-from-saved-state:{attr}",
                                    f"{name} at t0, {second} at t0+{gap}L (L={life}), app callback reads={cb_reads}, read just before={read_before}: {ent}.{attr} reads {reads} "
                                    f"but the gateway's saved state (get_state) does not hold the second message {L[second][0].strip()!r}",
                                    {"renewal": True},
                                )
                            # ... and the renewal ages out in its turn: 2L + 60 s after it the attribute is unknown from the second read on
                            w.set_time(w.now() + life * 2 + td(seconds=60))
                            read(gwy, ent, attr)
                            w.loop.settle()
                            late = [read(gwy, ent, attr)]
                            w.loop.settle()
                            late.append(read(gwy, ent, attr))
                            if any(r is not None for r in late):
                                t.bad(
                                    f"C14:renewed-value-never-expires:{attr}",
                                    f"{name} at t0, {second} at t0+{gap}L (L={life}), app callback reads={cb_reads}, read just before={read_before}: 2L+60 s after the second message "
                                    f"the second and third reads of {ent}.{attr} give {late}",
                                    {"renewal": True},
                                )
                        finally:
                            w.close()
    t.by["renewal"] = t.n
    return t


def _dispatch(job) -> E.Tally:
    return globals()[job[0]](job[1])


def run(ctx) -> None:
    depth = 3 if ctx.quick else 4
    jobs = []
    for g in GROUPS:
        nsh = 16 if ctx.quick else 64
        jobs += [("shard_hist", (g, i, nsh, depth)) for i in range(nsh)]
    jobs += [("shard_expiry", (i, 16, ctx.quick)) for i in range(16)]
    jobs += [("shard_primed", 0)]
    jobs += [("shard_attr_expiry", (i, 4)) for i in range(4)]
    jobs += [("shard_staggered", (i, 8)) for i in range(8)]
    jobs += [("shard_renewal", (i, 8)) for i in range(8)]
    total = E.pmap(_dispatch, jobs, ctx.seed)
    ctx.vcount = {k: v["count"] for k, v in total.viol.items()}
    for k, v in sorted(total.viol.items()):
        ctx.violation(k, v["what"], v["replay"])
    ctx.nviol_total = total.nviol
    nh = sum(v for k, v in total.by.items() if k in GROUPS)
    ctx.coverage.update(
        states=nh * depth,
        transitions=nh * depth,
        traces_validated_against_impl=nh,
        histories=nh,
        histories_by_group={k: v for k, v in total.by.items() if k in GROUPS},
        expiry_cases=total.by.get("expiry", 0),
        staggered_expiry_cases=total.by.get("staggered", 0),
        renewal_cases=total.by.get("renewal", 0),
        depth=depth,
        exhaustive=True,
        samples=total.samples[:5] or [["T_rp(00,1)"]],
        rule=f"all histories of depth {depth} over 5 letter groups (per-zone RP, array I over 3 zone subsets, device broadcasts; zones 00/01/0B, 2 values, 2 "
        "devices; each group = every letter touching an attribute family + interleaved letters for other zones/codes) fed to a real Gateway; after "
        "every step every attribute named by the reference equals the value of the newest message for it. Expiry: one frame per message kind x 8 clock "
        "offsets around L and 2L, and all 65,536 sync-cycle countdown words; attribute-level: after 2L+30 s the attribute reads unknown on the first and later reads; staggered: for every ordered pair of same-kind messages "
        "for different zones/devices 1.5 lifetimes apart, once the older has expired and been read the younger is still reported (both read orders); renewal: every attribute re-announced (same value / other value) "
        "0.5, 1.5, 2+ lifetimes later x an application callback reading at dispatch or not x a read just before or not: afterwards the second message's value is reported",
    )
    ctx.assumptions += ["a message kind's lifetime L is the documented table (pkt_lifespan rules, CODES_SCHEMA 'lifespan' entries, OpenTherm data-id classes) copied into the check as REF_CODE_LIFE / ref_life (for 1F09: the countdown in the payload); in the attribute-level shards L is the stored packet's own", "grace after 2L: up to 10 s"]


def replay(rep: dict):
    logcap.install()
    t = E.Tally()
    if "hist" in rep:
        run_history(t, tuple(rep["hist"]), letters(), rep["group"])
    elif "frame" in rep and rep.get("prime"):
        t.merge(shard_primed(0))
    elif "frame" in rep:
        fr = rep["frame"]
        import ramses_rf  # noqa: F401
        import ramses_tx.message  # noqa: F401

        check_expiry(t, fr, lifetime_from_payload=int(fr.split()[-1][2:6], 16) / 10 if " 1F09 003 " in fr and fr.startswith(" I") else None, prime=rep.get("prime"))
    elif "renewal" in rep:
        for i in range(8):
            t.merge(shard_renewal((i, 8)))
    elif "staggered" in rep:
        for i in range(8):
            t.merge(shard_staggered((i, 8)))
    else:
        for i in range(4):
            t.merge(shard_attr_expiry((i, 4)))
    return [(k, v["what"]) for k, v in t.viol.items()]
