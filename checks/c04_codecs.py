"""C04 - wire value codecs are exact inverses on their grid (E3: whole finite domains)."""

from __future__ import annotations

import datetime as _d
import math

from mc import enum as E
from mc import logcap

PROPERTY = "C04"
LEVEL = "exploration"


def H():
    import ramses_tx.address as A
    import ramses_tx.helpers as h

    return h, A


def _num(x) -> bool:
    return isinstance(x, (int, float)) and not isinstance(x, bool)


# ---------------------------------------------------------------------------------------------
def shard_temp(arg) -> E.Tally:
    lo, hi = arg
    h, _ = H()
    t = E.Tally()
    for w in range(lo, hi):
        hx = f"{w:04X}"
        t.n += 1
        try:
            v = h.hex_to_temp(hx)
        except ValueError:
            try:
                h.hex_to_temp(hx)
                t.bad("C04:temp:unstable-rejection", f"hex_to_temp({hx}) raised once, not twice", {"fn": "temp_word", "word": hx})
            except ValueError:
                pass
            continue
        if _num(v):
            t.nontrivial += 1
            try:
                back = h.hex_from_temp(v)
            except Exception as e:  # noqa: BLE001
                back = f"raised {type(e).__name__}"
            if back != hx:
                t.bad("C04:temp:word-not-reencoded", f"hex_from_temp(hex_to_temp({hx})={v}) = {back}", {"fn": "temp_word", "word": hx})
        else:  # sentinel
            back = h.hex_from_temp(v)
            v2 = h.hex_to_temp(back)
            if v2 is not v:
                t.bad("C04:temp:sentinel-lost", f"{hx} -> {v!r} -> {back} -> {v2!r}", {"fn": "temp_word", "word": hx})
    t.by["temp_words"] += hi - lo
    return t


def shard_temp_grid(arg) -> E.Tally:
    lo, hi = arg
    h, _ = H()
    t = E.Tally()
    for k in range(lo, hi):
        v = k / 100
        if k in (32767, 32511, 12799):  # 7FFF, 7EFF, 31FF are sentinels on the wire: these three temperatures cannot be represented
            t.n += 1
            t.nontrivial += 1
            try:
                hx = h.hex_from_temp(v)
                t.bad("C04:temp:unrepresentable-value-wrapped", f"hex_from_temp({v}) = {hx}, which decodes to {h.hex_to_temp(hx)!r}", {"fn": "temp_grid", "k": k})
            except ValueError:
                pass
            continue
        t.n += 1
        t.nontrivial += 1
        try:
            hx = h.hex_from_temp(v)
            back = h.hex_to_temp(hx)
        except Exception as e:  # noqa: BLE001
            hx, back = "?", f"raised {type(e).__name__}: {e}"
        if back != v:
            t.bad("C04:temp:grid-value-not-preserved", f"hex_to_temp(hex_from_temp({v})={hx}) = {back}", {"fn": "temp_grid", "k": k})
    t.by["temp_grid"] += hi - lo
    return t


def shard_double(arg) -> E.Tally:
    factor, lo, hi = arg
    h, _ = H()
    t = E.Tally()
    for w in range(lo, hi):
        hx = f"{w:04X}"
        t.n += 2
        v = h.hex_to_double(hx, factor)
        if v is None:
            if h.hex_to_double(h.hex_from_double(None, factor), factor) is not None:
                t.bad("C04:double:sentinel-lost", hx, {"fn": "double", "factor": factor, "word": hx})
            try:  # the number this word would stand for cannot be represented: it must be refused, not turned into 'not available'
                back = h.hex_from_double(w / factor, factor)
                t.bad(f"C04:double:unrepresentable-value-wrapped:factor{factor}", f"hex_from_double({w / factor}, {factor}) = {back}, which decodes to {h.hex_to_double(back, factor)!r}", {"fn": "double", "factor": factor, "word": hx})
            except ValueError:
                pass
            continue
        t.nontrivial += 1
        back = h.hex_from_double(v, factor)
        if back != hx:
            t.bad(f"C04:double:word-not-reencoded:factor{factor}", f"hex_from_double(hex_to_double({hx},{factor})={v}) = {back}", {"fn": "double", "factor": factor, "word": hx})
        g = w / factor
        try:
            back2 = h.hex_to_double(h.hex_from_double(g, factor), factor)
        except Exception as e:  # noqa: BLE001
            back2 = f"raised {type(e).__name__}"
        if back2 != g:
            t.bad(f"C04:double:grid-value-not-preserved:factor{factor}", f"{g} -> {back2}", {"fn": "double", "factor": factor, "word": hx})
    t.by[f"double_x{factor}"] += 2 * (hi - lo)
    return t


def shard_small(_arg) -> E.Tally:
    """percent, flag8, bool, str, out-of-range probes: small complete domains."""
    h, A = H()
    t = E.Tally()
    # percent
    for hr in (True, False):
        div = 200 if hr else 100
        for b in range(256):
            hx = f"{b:02X}"
            t.n += 1
            try:
                v = h.hex_to_percent(hx, hr)
            except ValueError:
                continue
            if v is None:
                if h.hex_to_percent(h.hex_from_percent(None, hr), hr) is not None:
                    t.bad("C04:percent:sentinel-lost", hx, {"fn": "percent_byte", "hr": hr, "byte": hx})
                continue
            t.nontrivial += 1
            back = h.hex_from_percent(v, hr)
            if back != hx:
                t.bad(f"C04:percent:byte-not-reencoded:{'hi' if hr else 'lo'}", f"hex_from_percent(hex_to_percent({hx})={v}, high_res={hr}) = {back}", {"fn": "percent_byte", "hr": hr, "byte": hx})
        for k in range(div + 1):
            v = k / div
            t.n += 1
            t.nontrivial += 1
            try:
                back = h.hex_to_percent(h.hex_from_percent(v, hr), hr)
            except Exception as e:  # noqa: BLE001
                back = f"raised {type(e).__name__}"
            if back != v:
                t.bad(f"C04:percent:grid-value-not-preserved:{'hi' if hr else 'lo'}", f"{v} -> {h.hex_from_percent(v, hr)} -> {back}", {"fn": "percent_grid", "hr": hr, "k": k})
        for bad in (-0.005, -1, 1.005, 1.01, 2, 255 / 200, math.nan, math.inf):
            t.n += 1
            try:
                hx = h.hex_from_percent(bad, hr)
            except Exception:  # noqa: BLE001
                continue
            try:
                r = h.hex_to_percent(hx, hr)
            except Exception:  # noqa: BLE001
                continue
            if _num(r) and not (abs(r - bad) <= 1 / div):
                t.bad("C04:percent:out-of-range-wrapped", f"hex_from_percent({bad}) = {hx} which reads {r}", {"fn": "percent_oor", "hr": hr, "v": bad})
    t.by["percent"] += 2 * 256 + 302 + 16
    # flag8
    for lsb in (False, True):
        for b in range(256):
            hx = f"{b:02X}"
            t.n += 2
            t.nontrivial += 1
            fl = h.hex_to_flag8(hx, lsb)
            if h.hex_from_flag8(fl, lsb) != hx:
                t.bad("C04:flag8:byte-not-reencoded", f"{hx} lsb={lsb} -> {fl} -> {h.hex_from_flag8(fl, lsb)}", {"fn": "flag8", "lsb": lsb, "byte": hx})
            bits = [(b >> i) & 1 for i in range(8)]
            if h.hex_to_flag8(h.hex_from_flag8(bits, lsb), lsb) != bits:
                t.bad("C04:flag8:flags-not-preserved", f"{bits} lsb={lsb}", {"fn": "flag8", "lsb": lsb, "byte": hx})
            # a caller may edit the list it was given (read-modify-write of a flag byte): the next decode of that byte must not see it
            keep = list(fl)
            fl[0] ^= 1
            fl.append(9)
            if h.hex_to_flag8(hx, lsb) != keep:
                t.bad("C04:flag8:decode-depends-on-earlier-caller", f"{hx} lsb={lsb}: decoded {keep}; after the caller edited its copy the next decode gives {h.hex_to_flag8(hx, lsb)}", {"fn": "flag8", "lsb": lsb, "byte": hx})
            fl = keep
            if (fl[0] if not lsb else fl[7]) != (b >> 7) & 1 or (fl[7] if not lsb else fl[0]) != b & 1:
                t.bad("C04:flag8:bit-order", f"{hx} lsb={lsb} -> {fl}", {"fn": "flag8", "lsb": lsb, "byte": hx})
    t.by["flag8"] += 1024
    # bool
    for v, hx in ((False, "00"), (True, "C8"), (None, "FF")):
        t.n += 2
        t.nontrivial += 1
        if h.hex_from_bool(v) != hx or h.hex_to_bool(hx) is not v:
            t.bad("C04:bool", f"{v} <-> {hx}", {"fn": "bool"})
    # text: every printable string of length <= 2 without leading/trailing blanks; every single byte
    printable = [chr(c) for c in range(32, 127)]
    for a in printable:
        for b in [""] + printable:
            s = a + b
            if s != s.strip():
                continue
            t.n += 1
            t.nontrivial += 1
            if h.hex_to_str(h.hex_from_str(s)) != s:
                t.bad("C04:str:text-not-preserved", repr(s), {"fn": "str", "s": s})
    for s in ("Kitchen", "Living Room", "A" * 20, "a-b_c.d/e", "x" * 12):
        t.n += 1
        if h.hex_to_str(h.hex_from_str(s)) != s:
            t.bad("C04:str:text-not-preserved", repr(s), {"fn": "str", "s": s})
    t.by["str"] += 95 * 96
    # out-of-range temperatures must raise or saturate, never wrap
    for bad in (327.68, 327.675, 400.0, 655.36, 1e6, -327.69, -400.0, -655.36, -1e6, math.nan, math.inf, -math.inf):
        t.n += 1
        t.nontrivial += 1
        try:
            hx = h.hex_from_temp(bad)
        except Exception:  # noqa: BLE001
            continue
        try:
            r = h.hex_to_temp(hx)
        except Exception:  # noqa: BLE001
            continue
        if _num(r) and not abs(r - bad) <= 0.01:
            t.bad("C04:temp:out-of-range-wrapped", f"hex_from_temp({bad}) = {hx}, which reads back as {r}", {"fn": "temp_oor", "v": bad})
    for f in (1, 10, 100):
        for bad in (65536 / f, 70000 / f, 1e9, 131071 / f):
            t.n += 1
            try:
                hx = h.hex_from_double(bad, f)
                r = h.hex_to_double(hx, f)
            except Exception:  # noqa: BLE001
                continue
            if _num(r) and abs(r - bad) > 1 / f:
                t.bad("C04:double:out-of-range-wrapped", f"hex_from_double({bad},{f}) = {hx} -> {r}", {"fn": "double_oor", "factor": f, "v": bad})
    # device-id sentinels
    for hx, did in (("FFFFFE", "63:262142"), ("      ", "--:------")):
        t.n += 1
        if A.hex_id_to_dev_id(hx) != did or A.Address.convert_from_hex(hx) != did:
            t.bad("C04:id:sentinel", f"{hx} -> {A.hex_id_to_dev_id(hx)}", {"fn": "id_sentinel", "hex": hx})
    if A.dev_id_to_hex_id("63:262142") != "FFFFFE" or A.Address.convert_to_hex("63:262142") != "FFFFFE":
        t.bad("C04:id:sentinel", "63:262142 -/-> FFFFFE", {"fn": "id_sentinel", "hex": "FFFFFE"})
    return t


def shard_dtm(arg) -> E.Tally:
    """Every minute of [start, start+days) x {dst} x {12,14 hex}."""
    start_ord, days, secs = arg
    h, _ = H()
    t = E.Tally()
    base = _d.datetime.fromordinal(start_ord)
    minute = _d.timedelta(minutes=1)
    for d in range(days):
        for m in range(1440):
            x = base + _d.timedelta(days=d, minutes=m)
            for sec in secs:
                y = x.replace(second=sec)
                for dst in (False, True):
                    for incl in (False, True):
                        if sec and not incl:
                            continue
                        t.n += 1
                        hx = h.hex_from_dtm(y, dst, incl)
                        want = y.isoformat(timespec="seconds")
                        try:
                            got = h.hex_to_dtm(hx)
                        except Exception as e:  # noqa: BLE001
                            got = f"raised {type(e).__name__}: {e}"
                        if got != want or len(hx) != (14 if incl else 12):
                            t.bad(f"C04:dtm:not-preserved:dst={dst}:secs={incl}", f"{want} -> {hx} -> {got}", {"fn": "dtm", "iso": want, "dst": dst, "incl": incl})
                        elif h.hex_from_dtm(got, dst, incl) != hx:
                            t.bad("C04:dtm:not-reencoded", f"{hx} -> {got} -> {h.hex_from_dtm(got, dst, incl)}", {"fn": "dtm", "iso": want, "dst": dst, "incl": incl})
    t.nontrivial = t.n
    t.by["dtm"] += t.n
    return t


TZS = {
    "CET": "CET-1CEST,M3.5.0,M10.5.0/3",  # Europe: gap 02:00-03:00 on the last Sunday of March
    "UK": "GMT0BST,M3.5.0/1,M10.5.0",  # gap 01:00-02:00
    "US-East": "EST5EDT,M3.2.0,M11.1.0",
    "Sydney": "AEST-10AEDT,M10.1.0,M4.1.0/3",  # southern hemisphere
}


def shard_dtm_tz(arg) -> E.Tally:
    """The date-time codec does not depend on the host's time zone: the days around every DST change (where a local-time
    normalisation would shift or fold an hour) swept minute by minute with the process time zone set to a zone with DST."""
    import os
    import time

    tzname, year = arg
    old = os.environ.get("TZ")
    os.environ["TZ"] = TZS[tzname]
    time.tzset()
    try:
        t = E.Tally()
        for mth in (3, 4, 10, 11):
            for day in range(1, 32):
                try:
                    d = _d.date(year, mth, day)
                except ValueError:
                    continue
                if d.weekday() != 6:  # DST changes happen on Sundays in all four zones
                    continue
                tt = shard_dtm((d.toordinal(), 1, (0,)))
                for k, v in tt.viol.items():
                    t.bad(k + ":tz", f"TZ={tzname}: " + v["what"], dict(v["replay"], tz=tzname))
                t.n += tt.n
        t.nontrivial = t.n
        t.by["dtm_tz"] += t.n
        return t
    finally:
        if old is None:
            os.environ.pop("TZ", None)
        else:
            os.environ["TZ"] = old
        time.tzset()


def shard_dts(arg) -> E.Tally:
    """Packed fault-log timestamps: every `stride`-th second of [t0, t0+n*stride)."""
    y0, m0, d0, n, stride = arg
    h, _ = H()
    t = E.Tally()
    x = _d.datetime(y0, m0, d0)
    step = _d.timedelta(seconds=stride)
    for _ in range(n):
        t.n += 1
        want = x.strftime("%y-%m-%dT%H:%M:%S")
        try:
            hx = h.hex_from_dts(x)
        except Exception as e:  # noqa: BLE001
            hx = f"raised {type(e).__name__}: {e}"
        try:
            got = h.hex_to_dts(hx)
        except Exception as e:  # noqa: BLE001
            got = f"raised {type(e).__name__}: {e}"
        if got != want or len(hx) != 12:
            t.bad("C04:dts:not-preserved", f"{want} -> {hx} -> {got}", {"fn": "dts", "iso": x.isoformat()})
        else:
            try:
                hx2 = h.hex_from_dts(got)  # (the decoder's own text form is also an accepted input of the encoder)
            except Exception as e:  # noqa: BLE001
                hx2 = f"raised {type(e).__name__}: {e}"
            if hx2 != hx:
                t.bad("C04:dts:not-reencoded", f"{hx} -> {got} -> {hx2}", {"fn": "dts", "iso": x.isoformat()})
        x += step
        if x.year > 2099:
            break
    t.nontrivial = t.n
    t.by["dts"] += t.n
    if h.hex_to_dts(h.hex_from_dts(None)) is not None:
        t.bad("C04:dts:sentinel-lost", "None", {"fn": "dts", "iso": None})
    return t


def shard_ids(arg) -> E.Tally:
    lo, hi, full = arg
    _, A = H()
    t = E.Tally()
    to_id, to_hex = A.hex_id_to_dev_id, A.dev_id_to_hex_id
    cfrom, cto = A.Address.convert_from_hex, A.Address.convert_to_hex
    for w in range(lo, hi):
        hx = f"{w:06X}"
        if w == 0xFFFFFE:
            continue
        want = f"{w >> 18:02d}:{w & 0x3FFFF:06d}"
        did = to_id(hx)
        t.n += 1
        if did != want:
            t.bad("C04:id:hex-to-id", f"{hx} -> {did}, want {want}", {"fn": "id", "w": w})
            continue
        try:
            back = to_hex(did)
        except Exception as e:  # noqa: BLE001
            back = f"raised {type(e).__name__}"
        if back != hx:
            t.bad("C04:id:not-a-bijection", f"{hx} -> {did} -> {back}", {"fn": "id", "w": w})
        if full or (w & 0x3F) == 0 or (w & 0x3FFFF) in (0, 1, 0x3FFFE, 0x3FFFF):
            t.n += 1
            try:
                d2 = cfrom(hx)
                b2 = cto(d2)
            except Exception as e:  # noqa: BLE001
                d2, b2 = "?", f"raised {type(e).__name__}"
            if d2 != want or b2 != hx:
                t.bad("C04:id:Address.convert-not-a-bijection", f"{hx} -> {d2} -> {b2}", {"fn": "id", "w": w})
    t.nontrivial = t.n
    t.by["ids"] += t.n
    return t


FUNCS = {
    "temp_word": lambda r: shard_temp((int(r["word"], 16), int(r["word"], 16) + 1)),
    "temp_grid": lambda r: shard_temp_grid((r["k"], r["k"] + 1)),
    "double": lambda r: shard_double((r["factor"], int(r["word"], 16), int(r["word"], 16) + 1)),
    "id": lambda r: shard_ids((r["w"], r["w"] + 1, True)),
}


def _dispatch(job) -> E.Tally:
    name, arg = job
    logcap.silence_all()
    return globals()[name](arg)


def run(ctx) -> None:
    q = ctx.quick
    jobs: list = []
    jobs += [("shard_temp", c) for c in E.chunks(0, 65536, 8)]
    jobs += [("shard_temp_grid", c) for c in E.chunks(-27315, 32768, 8)]
    for f in (1, 10, 100):
        jobs += [("shard_double", (f, a, b)) for a, b in E.chunks(0, 65536, 4)]
    jobs.append(("shard_small", None))
    # date-times: every minute of 2023-2024 (quick) / 2019-2030 (thorough), seconds {0} (+{1,30,59} on 14-hex)
    y0, y1 = (2023, 2025) if q else (2019, 2031)
    o0, o1 = _d.date(y0, 1, 1).toordinal(), _d.date(y1, 1, 1).toordinal()
    jobs += [("shard_dtm", (a, b - a, (0,))) for a, b in E.chunks(o0, o1, 48 if q else 160)]
    # all four second values on leap days / DST change days / year ends
    for y in range(2000, 2100, 4 if q else 1):
        for mth, day in ((2, 28), (2, 29), (3, 31), (10, 27), (12, 31)):
            try:
                jobs.append(("shard_dtm", (_d.date(y, mth, day).toordinal(), 1, (0, 1, 30, 59))))
            except ValueError:
                pass
    # ... and with the process in a time zone that has DST (the codec must not care): every Sunday of Mar/Apr/Oct/Nov
    for tz in TZS:
        for y in (2024,) if q else (2021, 2024, 2027, 2030):
            jobs.append(("shard_dtm_tz", (tz, y)))
    # packed timestamps: every second of two days per year of the century + stride 3599 s over the century
    for y in range(2000, 2100):
        if not q or y % 5 == 0:
            jobs.append(("shard_dts", (y, 2, 28, 2 * 86400, 1)))  # every second of 2 days (leap day when there is one)
        jobs.append(("shard_dts", (y, 2, 28, 2 * 1440, 60)))  # every minute of those days, every year
        jobs.append(("shard_dts", (y, 12, 31, 86400 // 7, 7)))
        if not q:
            jobs.append(("shard_dts", (y, 12, 31, 86400, 1)))
            jobs.append(("shard_dts", (y, 6, 1, 10 * 86400, 1)))
    for y in range(2000, 2100, 5):
        jobs.append(("shard_dts", (y, 1, 1, 5 * 366 * 86400 // 3599 + 1, 3599)))
    # device ids: the whole 24-bit space
    jobs += [("shard_ids", (a, b, not q)) for a, b in E.chunks(0, 1 << 24, 64)]
    total = E.pmap(_dispatch, jobs, ctx.seed)
    E.report(
        ctx,
        total,
        rule="whole finite domains: all 65,536 temperature words and all k/100 in [-273.15, 327.67]; all 4-hex doubles at factors 1/10/100; all 256 "
        "percent/flag bytes in both resolutions/orders; every minute of the year window x DST x 12/14-hex (+ every Sunday of Mar/Apr/Oct/Nov under four time zones with DST); packed timestamps over 2000-2099: every second of 2 days in every 5th year (every year in thorough), every minute of 2 days and every 7th "
        "second of Dec 31 in every year, stride 3599 s over the century; all 2^24 device-id hex values (helpers pair; Address.convert_* on every 64th + block edges in quick, all in thorough). "
        "non-trivial = a value that decodes to a number/date/id (not a sentinel, not rejected)",
        exhaustive=True,
        year_window=[y0, y1 - 1],
    )
    ctx.assumptions += ["text grid = printable ASCII without leading/trailing blanks (the decoder strips padding)", "TZ=UTC, plus four POSIX time zones with DST for the date-time codec"]


def replay(rep: dict):
    logcap.silence_all()
    fn = rep.get("fn")
    if fn in FUNCS:
        t = FUNCS[fn](rep)
    elif fn == "dtm" and rep.get("tz"):
        x = _d.datetime.fromisoformat(rep["iso"])
        t = shard_dtm_tz((rep["tz"], x.year))
    elif fn == "dtm":
        x = _d.datetime.fromisoformat(rep["iso"])
        t = shard_dtm((x.toordinal(), 1, (0, 1, 30, 59)))
    elif fn == "dts":
        x = _d.datetime.fromisoformat(rep["iso"]) if rep["iso"] else _d.datetime(2020, 1, 1)
        t = shard_dts((x.year, x.month, x.day, 86400, 1))
    else:
        t = shard_small(None)
    return [(k, v["what"]) for k, v in t.viol.items()]
