"""C20 - binding handshakes complete under duplicates, and always end and can be retried.

E1: two real Gateways (respondent, supplicant - the repo's five supported pairing flows) on one virtual loop, joined by
an ether.  Every nondeterministic choice goes through the Chooser.  At every transmission of a binding frame
(1FC9 / 10E0) the menu is:

  ok                      heard once by the sender (echo) and by the other end, 10 ms later
  rep(n, gap)             heard n = 2, 3 times by both: in one loop iteration (gap 0: one serial read), 20 ms apart, or 150 ms apart
                          (interleaved with later frames)
  lose_peer / lose_all    the other end / nobody hears this transmission
  lose_self               the sender's own gateway does not hear the echo of this transmission, the other end does
  deaf_cmd / lose_cmd     the other end / nobody hears this command at all (every retransmission of it)
  late(dt)                the other end hears it dt seconds late: just inside / outside the 3 s and 5 s waits
  tie(n)                  the other end hears it n = 1..5 loop iterations before the wait it ends expires (an iteration takes
                          0.3 ms here): the packet is still being worked off when the time-out falls due
  cancel(role)            that caller abandons its attempt (task cancelled)
  third(kind)             unrelated binding traffic is heard by both ends just after it: a third party's offer,
                          a broadcast offer, an accept addressed to someone else, a confirm addressed to someone else

rep / third are 'benign' (the statement demands success with equal packet tuples under them); lose / late are 'faults'
(the attempt must still end in time with the tuple or a binding error, leave the device not binding, and a fresh attempt
must succeed).  Scenario parameters: the flow, which side starts first and by how much, whether an addenda is required.
"""

from __future__ import annotations

import asyncio
import gc
import json
import multiprocessing as mp

from mc import explore as X
from mc import gwyworld as G
from mc import logcap
from mc.explore import Chooser

PROPERTY = "C20"
LEVEL = "model_checking"

GR, GS = "18:000000", "18:111111"
BATCH = 0.0003
HORIZON = 90.0
END_BOUND_RESP = 5.1 + 10.0 + 3.0 + 3.0 + 1.0  # offer wait + accept send (QoS) + confirm wait + addenda wait
END_BOUND_SUPP = 10.0 + 5.1 + 10.0 + 5.0 + 10.0 + 5.0 + 1.0  # offer send + accept wait + confirm send/echo + addenda send/echo

FLOWS = {
    "RND-CTL": {
        "resp": {"01:220768": {"class": "CTL"}},
        "supp": {"34:259472": {"class": "RND", "faked": True}},
        "pkts": (
            " I --- 34:259472 --:------ 34:259472 1FC9 024 0023098BF5900030C98BF5900000088BF590001FC98BF590",
            " W --- 01:220768 34:259472 --:------ 1FC9 006 012309075E60",
            " I --- 34:259472 01:220768 --:------ 1FC9 006 0123098BF590",
        ),
    },
    "CO2-FAN": {
        "resp": {"18:126620": {"class": "FAN", "scheme": "itho"}},
        "supp": {"37:154011": {"class": "CO2", "scheme": "itho", "faked": True}},
        "pkts": (
            " I --- 37:154011 --:------ 37:154011 1FC9 030 0031E096599B00129896599B002E1096599B0110E096599B001FC996599B",
            " W --- 18:126620 37:154011 --:------ 1FC9 012 0031D949EE9C0031DA49EE9C",
            " I --- 37:154011 18:126620 --:------ 1FC9 001 00",
            " I --- 37:154011 63:262142 --:------ 10E0 038 00000100280901" + "01" + "FEFFFFFFFFFF140107E5564D532D31324333390000000000000000000000",
        ),
    },
    "REM-FAN": {
        "resp": {"30:098165": {"class": "FAN", "scheme": "nuaire"}},
        "supp": {"32:208628": {"class": "REM", "scheme": "nuaire", "faked": True}},
        "pkts": (
            " I --- 32:208628 --:------ 32:208628 1FC9 018 0022F1832EF46C10E0832EF4001FC9832EF4",
            " W --- 30:098165 32:208628 --:------ 1FC9 006 2131DA797F75",
            " I --- 32:208628 30:098165 --:------ 1FC9 001 21",
            " I --- 32:208628 63:262142 --:------ 10E0 030 000001C85A01016CFFFFFFFFFFFF010607E0564D4E2D32334C4D48323300",
        ),
    },
    "DIS-FAN": {
        "resp": {"32:155617": {"class": "FAN", "scheme": "orcon"}},
        "supp": {"37:171871": {"class": "DIS", "faked": True}},
        "pkts": (
            " I --- 37:171871 --:------ 37:171871 1FC9 024 0022F1969F5F0022F3969F5F6710E0969F5F001FC9969F5F",
            " W --- 32:155617 37:171871 --:------ 1FC9 012 0031D9825FE10031DA825FE1",
            " I --- 37:171871 32:155617 --:------ 1FC9 001 00",
            " I --- 37:171871 63:262142 --:------ 10E0 038 000001C894030167FFFFFFFFFFFF1B0807E4564D492D313557534A3533000000000000000000",
        ),
    },
    "RND-CTL-00": {  # as RND-CTL, the controller accepting for zone 00 (public entry point only)
        "resp": {"01:220768": {"class": "CTL"}},
        "supp": {"34:259472": {"class": "RND", "faked": True}},
        "pkts": (
            " I --- 34:259472 --:------ 34:259472 1FC9 024 0023098BF5900030C98BF5900000088BF590001FC98BF590",
            " W --- 01:220768 34:259472 --:------ 1FC9 006 002309075E60",
            " I --- 34:259472 01:220768 --:------ 1FC9 001 00",
        ),
    },
    "REM-FAN-orcon": {
        "resp": {"32:155617": {"class": "FAN", "scheme": "orcon"}},
        "supp": {"29:158183": {"class": "REM", "scheme": "orcon", "faked": True}},
        "pkts": (
            " I --- 29:158183 --:------ 29:158183 1FC9 024 0022F17669E70022F37669E76710E07669E7001FC97669E7",
            " W --- 32:155617 29:158183 --:------ 1FC9 012 0031D9825FE10031DA825FE1",
            " I --- 29:158183 32:155617 --:------ 1FC9 001 00",
        ),
    },
    "DHW-CTL": {
        "resp": {"01:145038": {"class": "CTL"}},
        "supp": {"07:045960": {"class": "DHW", "faked": True}},
        "pkts": (
            " I --- 07:045960 --:------ 07:045960 1FC9 012 0012601CB388001FC91CB388",
            " W --- 01:145038 07:045960 --:------ 1FC9 006 0010A006368E",
            " I --- 07:045960 01:145038 --:------ 1FC9 006 0012601CB388",
        ),
    },
}

def _clone_flow(name: str, new_supp: str) -> dict:
    """The same pairing flow with ANOTHER supplicant of the same class (id and its 6-hex form substituted in the expected frames)."""

    def hexid(dev: str) -> str:
        return f"{(int(dev[:2]) << 18) + int(dev[3:]):06X}"

    f = FLOWS[name]
    old = next(iter(f["supp"]))
    return {
        "resp": {k: dict(v) for k, v in f["resp"].items()},
        "supp": {new_supp: dict(f["supp"][old])},
        "pkts": tuple(p.replace(old, new_supp).replace(hexid(old), hexid(new_supp)) for p in f["pkts"]),
    }


FLOWS["CO2-FAN#2"] = _clone_flow("CO2-FAN", "37:154099")
FLOWS["RND-CTL#2"] = _clone_flow("RND-CTL", "34:259499")
FLOWS["DHW-CTL#2"] = _clone_flow("DHW-CTL", "07:045999")

THIRD = {
    # unrelated binding traffic (a third pair binding nearby), by kind
    "offer": " I --- 34:111111 --:------ 34:111111 1FC9 012 00230987B207001FC987B207",
    "offer_bcast": " I --- 29:111111 63:262142 --:------ 1FC9 012 0022F17669E7001FC97669E7",
    "accept_other": " W --- 01:999999 34:111111 --:------ 1FC9 006 0023090F423F",
    "confirm_other": " I --- 34:111111 01:999999 --:------ 1FC9 006 00230987B207",
    # a bystander's periodic device-info broadcast (10E0 is what the optional addenda phase consists of)
    "info_other": " I --- 32:111111 63:262142 --:------ 10E0 038 000001C8270901" + "67" + "FFFFFFFFFFFF0D0207E3564D4E2D31354C46303100000000000000000000",
}

THIRD_DEVICES = {"34:111111": {"class": "THM"}, "29:111111": {"class": "REM"}, "01:999999": {"class": "CTL"}, "32:111111": {"class": "FAN"}}

BENIGN = ("rep", "third", "recall")  # (a cancelled attempt is judged like a faulty one: it must end cleanly and be retryable)


def _ensure_fakeable(dev) -> None:
    from ramses_rf.binding_fsm import BindContext
    from ramses_rf.device import Fakeable

    if isinstance(dev, Fakeable):
        if dev._bind_context is None:
            dev._make_fake()
        return

    class _Fakeable(dev.__class__, Fakeable):  # as the repo's tests do for a respondent that is not a faked device
        pass

    dev.__class__ = _Fakeable
    dev._bind_context = BindContext(dev)
    dev._make_fake()


class BindWorld:
    def __init__(self, params: dict, prefix=(), expect=None) -> None:
        self.params = params
        self.ch = Chooser(prefix, expect)
        self.dev = set(params.get("dev", ("rep", "lose", "late", "third")))
        self.flow = FLOWS[params["flow"]]
        self.w = G.GwyWorld()
        self.loop = self.w.loop
        self.loop.batch_cost = BATCH  # a loop iteration takes 0.3 ms: a timer can fall due while a packet is still being worked off
        self.faults = True
        # "retry_flow": the fresh attempt after the episode is made by ANOTHER supplicant (another flow's) to the same respondent
        self.flow2 = FLOWS[params["retry_flow"]] if params.get("retry_flow") else self.flow
        known = {**self.flow["resp"], **self.flow["supp"], **self.flow2["supp"], **THIRD_DEVICES}  # (third parties must pass the filter to be heard at all)
        cfg = {"disable_discovery": True, "disable_qos": False, "enforce_known_list": True}
        self.gr = self.w.add_gateway(gwy_id=GR, config=dict(cfg), known_list={k: dict(v) for k, v in known.items()}, orphans_hvac=list(self.flow["resp"]))
        self.gs = self.w.add_gateway(gwy_id=GS, config=dict(cfg), known_list={k: dict(v) for k, v in known.items()}, orphans_hvac=list({**self.flow["supp"], **self.flow2["supp"]}))
        self.resp = self.gr.get_device(next(iter(self.flow["resp"])))
        self.supp = self.gs.get_device(next(iter(self.flow["supp"])))
        self.supp2 = self.gs.get_device(next(iter(self.flow2["supp"])))
        _ensure_fakeable(self.resp)
        _ensure_fakeable(self.supp)
        _ensure_fakeable(self.supp2)
        self.w.on_write = self._on_write
        self.nwrites = 0
        self.third_done: set = set()
        self.cmd_fate: dict[str, str] = {}
        self.tasks: dict = {}
        self.cancelled: set = set()
        self.recalled: list = []
        self.recalls: list = []
        self.log: list[tuple] = []

    # -- ether
    def _hear(self, gi: int, frame: str) -> None:
        if not self.loop.dead:
            self.w.rx(frame, gi=gi, settle=False)

    def _hear_tie(self, gi: int, frame: str, n: int) -> None:
        """Deliver so that the expiry of the wait this packet ends falls due while the packet is still being worked off:
        n loop iterations (less half of one) before the earliest armed wait_for time-out that is more than 1 s away (by now
        the sender's own echo wait is over)."""
        if self.loop.dead:
            return
        now = self.loop.time()
        whens = sorted(
            h._when
            for h in self.loop._scheduled
            if not h._cancelled and getattr(h._callback, "__name__", "") == "_on_timeout" and h._when > now + 1.0
        )
        if whens:
            self.loop.call_at(whens[0] - (n - 0.5) * BATCH, self._hear, gi, frame)
        else:
            self._hear(gi, frame)

    def _on_write(self, tx, frame: str) -> None:
        loop = self.loop
        me = self.w.txs.index(tx)
        peer = 1 - me
        wire = self.w.echo(tx, frame)
        code = frame.split()[5]
        self.log.append((round(loop.time(), 3), me, frame))
        fate = ("ok",)
        if self.faults and code in ("1FC9", "10E0"):
            self.nwrites += 1
            menu: list = [(("ok",), 0)]
            if "rep" in self.dev:
                menu += [(("rep", n, gap), 1) for n in (2, 3) for gap in (0.0, 0.02, 0.15)]
            if "lose" in self.dev and frame not in self.cmd_fate:
                menu += [(("lose_peer",), 1), (("lose_all",), 1), (("lose_cmd",), 1), (("deaf_cmd",), 1), (("lose_self",), 1)]
            if "late" in self.dev:
                menu += [(("late", dt), 1) for dt in (2.95, 3.05, 4.95, 5.05, 5.15)]
                menu += [(("tie", n), 1) for n in (1, 2, 3, 4, 5)]
            if "third" in self.dev:
                menu += [(("third", k), 1) for k in sorted(THIRD) if k not in self.third_done]
            if "cancel" in self.dev:
                menu += [(("cancel", n), 1) for n, t in sorted(self.tasks.items()) if not t.done() and n not in self.cancelled]
            if "recall" in self.dev and not self.recalled:
                # the application calls the same binding entry point again on a device whose handshake is in progress (it must be refused,
                # and the handshake in progress must not notice)
                menu += [(("recall", n), 1) for n, t in sorted(self.tasks.items()) if not t.done()]
            if frame in self.cmd_fate:  # every retransmission of a command that is lost as a whole shares its fate
                fate = (self.cmd_fate[frame],)
            elif len(menu) > 1:
                fate = self.ch.choose(menu)
                if fate[0] in ("lose_cmd", "deaf_cmd"):
                    self.cmd_fate[frame] = "lose_all" if fate[0] == "lose_cmd" else "lose_peer"
                    fate = (self.cmd_fate[frame],)
        k = fate[0]
        if k == "cancel":  # the caller abandons its attempt now (the frame itself is heard normally)
            self.cancelled.add(fate[1])
            loop.call_soon(self.tasks[fate[1]].cancel)
        if k == "recall":
            self.recalled.append(fate[1])
            loop.call_soon(self._recall, fate[1])
        if k == "lose_all":
            return
        times = [0.01]
        if k == "rep":
            times = [0.01 + i * fate[2] for i in range(fate[1])]
        for t in times:
            if k != "lose_self":  # (the sender's own gateway misses the echo of this transmission; the other end hears it)
                loop.call_later(t, self._hear, me, wire)
            if k == "lose_peer":
                continue
            if k == "tie":
                loop.call_later(0.05, self._hear_tie, peer, wire, fate[1])
                continue
            loop.call_later(t + (fate[1] if k == "late" else 0.0), self._hear, peer, wire)
        if k == "third":
            self.third_done.add(fate[1])
            for gi in (0, 1):
                loop.call_later(0.012, self._hear, gi, THIRD[fate[1]])

    def _recall(self, role: str) -> None:
        accept_codes, idx, offer_codes, confirm_code, ratify = self._args()
        rec = {"role": role}
        self.recalls.append(rec)

        async def go():
            try:
                if role == "resp":
                    await self.resp._wait_for_binding_request(accept_codes, idx=idx, require_ratify=False)
                else:
                    await self.supp._initiate_binding_process(offer_codes, confirm_code=confirm_code, ratify_cmd=None)
                rec["res"] = ("ok",)
            except asyncio.CancelledError:
                rec["res"] = ("cancelled",)
            except BaseException as e:  # noqa: BLE001
                from ramses_rf import exceptions as rexc

                rec["res"] = ("exc", type(e).__name__, isinstance(e, rexc.BindingError))

        self.loop.create_task(go())

    # -- callers
    def _args(self, flow=None):
        p = (flow or self.flow)["pkts"]
        pl = p[1].split()[-1]
        accept_codes = [pl[i : i + 4] for i in range(2, len(pl), 12)]
        idx = pl[:2]
        ol = p[0].split()[-1]
        offer_codes = [c for c in (ol[i : i + 4] for i in range(2, len(ol), 12)) if c != "1FC9"]
        cl = p[2].split()[-1]
        confirm_code = cl[2:6] or None
        ratify = len(p) > 3
        return accept_codes, idx, offer_codes, confirm_code, ratify

    def attempt(self, supp_delay: float, horizon: float, second: bool = False) -> dict:
        from ramses_tx.command import Command

        L = G.lib()
        flow = self.flow2 if second else self.flow
        supp = self.supp2 if second else self.supp
        accept_codes, idx, offer_codes, confirm_code, ratify = self._args(flow)
        ratify_cmd = Command(flow["pkts"][3]) if ratify else None
        loop = self.loop
        out: dict = {}
        t0 = loop.time()

        async def wrap(name, factory, delay):
            rec = {"start": loop.time()}
            out[name] = rec
            try:
                if delay > 0:
                    await asyncio.sleep(delay)
                    rec["start"] = loop.time()
                res = await factory()
                rec["res"] = ("ok", [None if p is None else str(p) for p in res])
            except asyncio.CancelledError:
                rec["res"] = ("cancelled",)
            except BaseException as e:  # noqa: BLE001
                from ramses_rf import exceptions as rexc

                rec["res"] = ("exc", type(e).__name__, isinstance(e, rexc.BindingError), isinstance(e, L["exc"].RamsesException), str(e)[:120])
            rec["end"] = loop.time()

        rd, sd = (0.0, supp_delay) if supp_delay >= 0 else (-supp_delay, 0.0)
        if self.params.get("api"):  # the public per-device-class entry point: its own code list, no confirm code, no addenda
            tr = loop.create_task(wrap("resp", lambda: self.resp._wait_for_binding_request(accept_codes, idx=idx, require_ratify=False), rd))
            ts = loop.create_task(wrap("supp", lambda: supp.initiate_binding_process(), sd))
        else:
            tr = loop.create_task(wrap("resp", lambda: self.resp._wait_for_binding_request(accept_codes, idx=idx, require_ratify=ratify), rd))
            ts = loop.create_task(wrap("supp", lambda: supp._initiate_binding_process(offer_codes, confirm_code=confirm_code, ratify_cmd=ratify_cmd), sd))
        self.tasks = {"resp": tr, "supp": ts}
        loop.quiesce_until(lambda: tr.done() and ts.done(), t0 + horizon)
        for name, t in (("resp", tr), ("supp", ts)):
            if not t.done():
                out.setdefault(name, {"start": t0})["res"] = ("hang",)
                t.cancel()
        loop.settle()
        return out

    def state(self) -> dict:
        def armed(ctx) -> int:
            n = 0
            for h in self.loop._scheduled:
                if h._cancelled:
                    continue
                cb = getattr(h, "_callback", None)
                owner = getattr(cb, "__self__", None)
                if owner is not None and getattr(owner, "_context", None) is ctx:
                    n += 1
            return n

        return {
            "resp_binding": self.resp._bind_context.is_binding,
            "supp_binding": self.supp._bind_context.is_binding,
            "resp_state": type(self.resp._bind_context.state).__name__,
            "supp_state": type(self.supp._bind_context.state).__name__,
            "resp_timers": armed(self.resp._bind_context),
            "supp_timers": armed(self.supp._bind_context),
        }

    def execute(self) -> dict:
        p = self.params
        obs: dict = {}
        obs["first"] = self.attempt(p.get("supp_delay", 0.0), HORIZON)
        obs["kinds"] = sorted({l[0] for l in self.ch.labels if l[0] != "ok"})
        obs["recalls"] = [dict(r) for r in self.recalls]
        self.faults = False
        self.cmd_fate.clear()
        obs["state_at_end"] = self.state()
        # the fresh attempt starts 0.5 s later (timers of the old attempt may still be armed) or after every wait has long expired
        self.loop.quiesce(self.loop.time() + p.get("retry_after", 0.5))
        obs["state_after"] = self.state()
        obs["exc_first"] = self.w.loop_exceptions()
        n_exc = len(self.loop.exc)
        # (the fresh attempt may itself have its supplicant start late - e.g. 4.8 s, inside the respondent's 5 s offer wait - so that
        #  it is still in progress when timers left over from the first attempt fall due)
        obs["second"] = self.attempt(p.get("retry_supp_delay", 0.0), HORIZON, second=True)
        self.loop.quiesce(self.loop.time() + 12.0)
        obs["state_final"] = self.state()
        gc.collect()
        obs["exc_second"] = self.w.loop_exceptions()[n_exc:]
        obs["log_exc"] = sorted({(r[1], r[3]) for r in logcap.CAP.records})
        obs["frames"] = [(t, gi, f) for t, gi, f in self.log][:40]
        self.w.close()
        return obs


def run_world(params: dict, prefix=(), expect=None):
    w = BindWorld(params, prefix, expect)
    try:
        obs = w.execute()
    except BaseException:
        try:
            w.w.close()
        except Exception:  # noqa: BLE001
            pass
        raise
    return w.ch, obs


# ---------------------------------------------------------------------------------------------------------
def _judge_attempt(tag: str, att: dict, flow: dict, must_succeed: bool, out: list, ctx: str, api: bool = False, api_tag: str = "") -> None:
    exp = [p for p in flow["pkts"]]
    for name, bound in (("resp", END_BOUND_RESP), ("supp", END_BOUND_SUPP)):
        rec = att.get(name)
        if rec is None or "res" not in rec:
            out.append((f"C20:{tag}:never-started:{name}", f"{name} attempt has no result ({ctx})"))
            continue
        r = rec["res"]
        if r[0] == "hang":
            out.append((f"C20:{tag}:never-ends:{name}", f"the {name}'s attempt had not ended {HORIZON:.0f} s after it began ({ctx})"))
            continue
        dur = rec["end"] - rec["start"]
        if dur > bound:
            out.append((f"C20:{tag}:ends-late:{name}", f"the {name}'s attempt ended after {dur:.2f} s, beyond the sum of its stated waits {bound:.1f} s ({ctx})"))
        if r[0] == "exc" and not r[2] and not r[3]:
            # (a send that fails surfaces as the library's ProtocolSendFailed rather than a BindingError: accepted as 'an error
            #  of the binding attempt', the weaker reading - DESIGN section 5; anything that is not a library error is flagged)
            out.append((f"C20:{tag}:internal-error:{name}:{r[1]}", f"the {name}'s attempt raised {r[1]} ({r[4]}), not a binding error ({ctx})"))
        if must_succeed and r[0] != "ok":
            out.append((f"C20:{tag}:fails-without-loss:{name}:{r[1] if len(r) > 1 else r[0]}{api_tag}", f"nothing was lost or late, yet the {name}'s attempt ended with {r[:2]} ({ctx})"))
    rr, sr = att.get("resp", {}).get("res"), att.get("supp", {}).get("res")
    if rr and sr and rr[0] == "ok" and sr[0] == "ok":
        a, b = rr[1], sr[1]
        if a != b:
            out.append((f"C20:{tag}:tuples-differ", f"respondent reports {a}, supplicant reports {b} ({ctx})"))
        want = [p.strip() for p in exp] + [None] * (4 - len(exp))
        got = [None if x is None else x.strip() for x in a]
        got_s = [None if x is None else x.strip() for x in b]
        if api:
            # the device class's own code list: the three phases in order, between the right parties
            f = [None if x is None else x.split() for x in got]
            rid, sid = exp[1].split()[2], exp[0].split()[2]
            ok = (
                f[0] is not None and f[1] is not None and f[2] is not None
                and (f[0][0], f[0][2], f[0][4], f[0][5]) == ("I", sid, sid, "1FC9")
                and (f[1][0], f[1][2], f[1][3], f[1][5]) == ("W", rid, sid, "1FC9")
                and (f[2][0], f[2][2], f[2][3], f[2][5]) == ("I", sid, rid, "1FC9")
            )
            if not ok and got == got_s:
                out.append((f"C20:{tag}:not-a-handshake", f"both ends report {a}: not offer/accept/confirm between {sid} and {rid} ({ctx})"))
        elif [g and g.replace(GS, "18:000730").replace(GR, "18:000730") for g in got] != want and got == got_s:
            out.append((f"C20:{tag}:not-the-flow's-packets", f"both ends report {a}, the flow is {exp} ({ctx})"))
    elif rr and sr and must_succeed is False and (rr[0] == "ok") != (sr[0] == "ok"):
        pass  # under loss one end may succeed while the other fails (e.g. the last frame lost): allowed by the statement


def _unretrieved_binding_failure(e: tuple) -> bool:
    """asyncio's 'Future exception was never retrieved' for a state future that was failed by its own timer while the
    caller was being failed by the send: log noise without a traceback, not behaviour."""
    return e[0] in ("BindingFlowFailed", "BindingError") and e[2] == ""


def oracle(obs: dict, params: dict) -> list[tuple[str, str]]:
    out: list[tuple[str, str]] = []
    flow = FLOWS[params["flow"]]
    kinds = obs["kinds"]
    benign_only = all(k in BENIGN for k in kinds) and 0.0 <= params.get("supp_delay", 0.0) < 4.5  # (a respondent that starts listening after the offer has missed it)
    ctx = f"flow {params['flow']}, supplicant delay {params.get('supp_delay', 0.0)}"
    api = bool(params.get("api"))
    if api:
        ctx += ", public initiate_binding_process()"
    api_tag = f":public-api:{params['flow']}" if api else ""
    _judge_attempt("first", obs["first"], flow, benign_only, out, ctx, api, api_tag)
    for r in obs.get("recalls", ()):
        res = r.get("res")
        if res is not None and not (res[0] == "exc" and res[2]):
            out.append((f"C20:second-call-not-refused:{r['role']}:{res[0] if res[0] != 'exc' else res[1]}", f"a second call of the {r['role']}'s binding entry point while its handshake was in progress ended with {res} (a binding error was due) ({ctx})"))
    st = obs["state_at_end"]
    for role in ("resp", "supp"):
        if st[f"{role}_binding"]:
            out.append((f"C20:still-binding:{role}:{st[role + '_state']}", f"both attempts have ended but the {role} is still binding (state {st[role + '_state']}) ({ctx})"))
    for e in obs["exc_first"]:
        if _unretrieved_binding_failure(e):
            continue
        out.append((f"C20:loop-exception:{e[0]}:{e[2]}", f"unhandled in the event loop: {e} ({ctx})"))
    flow2 = FLOWS[params["retry_flow"]] if params.get("retry_flow") else flow
    _judge_attempt("retry", obs["second"], flow2, True, out, ctx + (", fresh attempt after the episode" if flow2 is flow else f", fresh attempt by another supplicant ({params['retry_flow']}) after the episode"), api, api_tag)
    sf = obs["state_final"]
    for role in ("resp", "supp"):
        if sf[f"{role}_binding"]:
            out.append((f"C20:retry:still-binding:{role}", f"after the fresh attempt the {role} is still binding ({ctx})"))
    for e in obs["exc_second"]:
        if _unretrieved_binding_failure(e):
            continue
        out.append((f"C20:retry:loop-exception:{e[0]}:{e[2]}", f"unhandled in the event loop during/after the fresh attempt: {e} ({ctx})"))
    return out


def outcome_digest(obs: dict) -> str:
    def att(a):
        return {k: (v.get("res", ("?",))[:2], round(v.get("end", -1), 2)) for k, v in a.items()}

    return X.digest({"1": att(obs["first"]), "2": att(obs["second"]), "s": obs["state_after"], "e": obs["exc_first"], "f": obs["exc_second"]})


# ---------------------------------------------------------------------------------------------------------
def scenarios(quick: bool) -> list[tuple[dict, int]]:
    sc: list[tuple[dict, int]] = []
    allk = ("rep", "lose", "late", "third", "cancel")
    for flow in FLOWS:
        if flow in ("REM-FAN-orcon", "RND-CTL-00") or "#" in flow:
            continue  # (only driven through the public entry point below: the table row is not one of the repo's five)
        # every pattern of repeats over all frames of the handshake (benign only): D = number of frames
        sc.append(({"flow": flow, "dev": ("rep",)}, 3 if quick else 4))
        sc.append(({"flow": flow, "dev": ("rep", "third")}, 2 if quick else 3))
        sc.append(({"flow": flow, "dev": allk}, 2 if quick else 3))
        sc.append(({"flow": flow, "dev": ("lose", "late", "cancel")}, 3 if quick else 4))
    for flow in ("RND-CTL", "REM-FAN"):
        sc.append(({"flow": flow, "dev": ("lose", "late", "cancel"), "retry_after": 12.0}, 2))
    # the public entry points (code list chosen by the device class / vendor scheme)
    for flow in ("RND-CTL", "RND-CTL-00", "CO2-FAN", "REM-FAN", "DHW-CTL", "REM-FAN-orcon"):
        sc.append(({"flow": flow, "api": True, "dev": allk}, 2 if quick else 3))
    for flow in ("RND-CTL", "CO2-FAN", "DHW-CTL"):
        for d in (4.8, 4.4):
            sc.append(({"flow": flow, "dev": ("lose", "cancel"), "retry_supp_delay": d}, 2 if quick else 3))
    # the application calls the entry point a second time while the handshake is in progress
    for flow in ("RND-CTL", "CO2-FAN"):
        sc.append(({"flow": flow, "dev": ("recall", "rep")}, 1 if quick else 2))
    # the fresh attempt is made by another supplicant to the same respondent (two remotes paired with one fan, one after the other)
    for a in ("CO2-FAN", "RND-CTL", "DHW-CTL"):
        sc.append(({"flow": a, "retry_flow": a + "#2", "dev": ("rep", "lose", "late", "cancel")}, 1 if quick else 2))
    # who starts first, and by how much (around the 5 s offer wait)
    for flow in ("DHW-CTL", "CO2-FAN"):
        for d in (-1.0, -4.9, -5.2, 1.0, 4.9, 5.2, 12.0):
            sc.append(({"flow": flow, "dev": ("lose", "late", "rep", "cancel"), "supp_delay": d}, 1 if quick else 2))
    return sc


def _task(args):
    params, D, audit_every, seed, shard = args
    logcap.install()

    def run(prefix, expect):
        return run_world(params, prefix, expect)

    def check(obs):
        return oracle(obs, params)

    X.set_job(run, check, outcome_digest)
    s = X._dfs(([], None, 0), D, audit_every, seed, shard)
    for vv in s.violations.values():
        vv.setdefault("params", params)
    gc.collect()
    return s


def run(ctx) -> None:
    logcap.install()
    sc = scenarios(ctx.quick)
    tasks = []
    for p, D in X.rotate(sc, ctx.seed):
        nsh = 8 if D >= 3 else (3 if D == 2 else 1)
        tasks += [(p, D, 23, ctx.seed, (k, nsh) if nsh > 1 else None) for k in range(nsh)]
    tasks.sort(key=lambda t: -t[1])
    total = X.Summary()
    with mp.get_context("fork").Pool(X.ncpu()) as pool:
        for s in pool.imap_unordered(_task, tasks, chunksize=1):
            total.merge(s)
    ctx.vcount = dict(total.vcount)
    for vv in sorted(total.violations.values(), key=lambda v: (v["cost"], len(v["choices"]))):
        ctx.violation(vv["key"], vv["what"], {"params": vv["params"], "choices": vv["choices"], "labels": vv["labels"]})
    ctx.nviol_total = total.nviol
    ctx.coverage.update(
        states=total.nodes,
        transitions=max(1, total.nodes - len(sc)),
        traces_validated_against_impl=total.executions,
        executions=total.executions,
        scenarios=len(sc),
        deviation_bound_completed=max(d for _, d in sc),
        max_depth=total.max_depth,
        distinct_outcomes=len(total.outcomes),
        deviations_taken=dict(total.actions),
        determinism_audits=total.audited,
        caps_hit=0,
        exhaustive=True,
        samples=total.samples[:3],
        rule="every schedule with <= D deviations of each scenario (stateless DFS, prefix replay on two fresh real Gateways joined by an ether on the virtual "
        "loop); a choice point at every transmission of a 1FC9/10E0 frame: {heard once, heard 2/3 times in one loop iteration / 20 ms / 150 ms apart, lost for the peer, lost for "
        "all, heard by the peer 2.95/3.05/4.95/5.05/5.15 s late, followed by third-party offer / broadcast offer / accept / confirm}; scenarios: 5 flows x "
        "{repeats only (all patterns), repeats+third party, everything} + supplicant/respondent start offsets around the 5 s offer wait; after every episode: "
        "neither device binding, no loop exception, and a fresh fault-free attempt started 0.5 s (or 12 s) later succeeds with equal tuples",
    )
    ctx.assumptions += [
        "an attempt's 'stated waits': respondent 5.1 + 10 (QoS) + 3 + 3 s, supplicant 10 + 5.1 + 10 + 5 + 10 + 5 s, +1 s slack",
        "under loss or lateness one end may succeed while the other fails; under repeats / third-party traffic alone both must succeed with equal tuples",
        "impersonation notices (7FFF puzzle packets) are switched off, as in the repo's binding tests",
    ]


def replay(rep: dict):
    logcap.install()
    ch, obs = run_world(rep["params"], rep["choices"], None)
    return oracle(obs, rep["params"])
