"""C11 - transmit regulation holds for every send pattern (E1: all operation sequences up to a depth on the real
PortTransport / MqttTransport over a fake serial port / fake MQTT client, virtual time)."""

from __future__ import annotations

import asyncio
import importlib
import itertools
import time as _time

from mc import enum as E
from mc import logcap
from mc.rxworld import FakeSerial
from mc.vloop import dispose_loop, install_loop

PROPERTY = "C11"
LEVEL = "model_checking"

# the configured regulation (const.py): 1% duty cycle of a deemed 38,400 bit/s over 60 s; 50 ms between writes; 80 msgs / 60 s on MQTT
RATE, DUTY, WINDOW, GAP = 38400, 0.01, 60, 0.05
FILL = RATE * DUTY
BUCKET = FILL * WINDOW
MQTT_TOKENS, MQTT_RATE = 80, 80 / 60
EPS = 1e-6


def deemed_bits(frame: str) -> int:
    return 330 + len(frame[46:]) * 10


def frame_of(n: int, length: int) -> str:
    pl = f"{n % 256:02X}" + "00" * (length - 1)
    return f"RQ --- 18:000730 01:145038 --:------ 0404 {length:03d} {pl}"


class Proto:
    def connection_made(s, *a, **k):
        pass

    def connection_lost(s, *a):
        pass

    def pkt_received(s, p):
        pass

    def pause_writing(s):
        pass

    def resume_writing(s):
        pass


def run_port(ops, dtl=None) -> dict:
    """ops: [(gap_s, burst, length_bytes, concurrent)]; dtl: how the caller sets write_frame's disable_tx_limits argument
    (None = not given, "kw" = disable_tx_limits=True, "pos" = True positionally, "alt" = every other call) - the statement says
    "however commands are offered": on a serial gateway that flag must not buy any air time"""
    loop = install_loop()
    real_pc = _time.perf_counter
    try:
        _time.perf_counter = lambda: loop.time()
        import ramses_tx.transport as T

        T = importlib.reload(T)  # the duty-cycle bucket lives in a decorator closure: a fresh one per execution
        T.is_hgi80 = lambda n: False
        ser = FakeSerial(loop)
        tr = T.PortTransport(ser, Proto(), disable_sending=True, loop=loop)
        loop.quiesce(1.0)  # connection made without the signature phase (those frames are written unregulated)
        tr._disable_sending = False
        ser.tx.clear()
        t_start = loop.time()
        pend = [0]
        maxpend = [0]
        calls: list[tuple] = []
        tasks = []

        async def one(frame):
            pend[0] += 1
            maxpend[0] = max(maxpend[0], pend[0])
            calls.append((loop.time(), frame))
            k = len(calls)
            try:
                if dtl == "kw" or (dtl == "alt" and k % 2):
                    await tr.write_frame(frame, disable_tx_limits=True)
                elif dtl == "pos":
                    await tr.write_frame(frame, True)
                else:
                    await tr.write_frame(frame)
            finally:
                pend[0] -= 1

        async def script():
            n = 0
            for op in ops:
                if op[0] == "status":  # a retained / repeated status message of the MQTT gateway (it went offline, came back online)
                    class St:
                        topic = "RAMSES/GATEWAY/18:123456"
                        payload = op[1].encode()

                    tr._on_message(None, None, St())
                    await asyncio.sleep(0)
                    continue
                gap, burst, ln, conc = op
                if gap:
                    await asyncio.sleep(gap)
                for _ in range(burst):
                    n += 1
                    fr = frame_of(n, ln)
                    if conc:
                        tasks.append(loop.create_task(one(fr)))
                    else:
                        await one(fr)

        main = loop.create_task(script())
        horizon = t_start + sum(o[0] for o in ops) + 4000
        steps = 0
        while not (main.done() and all(t.done() for t in tasks)):
            if loop._ready:
                loop.run_batch()
            else:
                nt = loop.next_timer()
                if nt is None or nt > horizon:
                    break
                loop.fire_due(nt)
            steps += 1
        done = main.done() and all(t.done() for t in tasks)
        errs = [repr(t.exception()) for t in [main] + tasks if t.done() and not t.cancelled() and t.exception()]
        writes = [(t, d.decode()) for t, d in ser.tx]
        return {"writes": writes, "calls": calls, "maxpend": maxpend[0], "done": done, "errs": errs, "loop_exc": [str(c.get("exception"))[:100] for c in loop.exc], "t_end": loop.time()}
    finally:
        _time.perf_counter = real_pc
        for t in asyncio.all_tasks(loop):
            t.cancel()
        dispose_loop(loop)


def judge_port(ops, r: dict) -> list[tuple[str, str]]:
    out = []
    if r["loop_exc"] or r["errs"]:
        out.append(("C11:port:exception", f"{ops}: {r['errs'][:1]} {r['loop_exc'][:1]}"))
    offered = [f for _, f in r["calls"]]
    written = [d[:-2] for _, d in r["writes"]]
    if not r["done"] or len(written) != len(offered):
        out.append(("C11:port:not-every-frame-written", f"{ops}: {len(offered)} frames accepted, {len(written)} written by t={r['t_end']:.0f}"))
    if any(not d.endswith("\r\n") for _, d in r["writes"]) or sorted(written) != sorted(offered):
        out.append(("C11:port:frame-altered-or-repeated", f"{ops}: written multiset differs from offered"))
    elif written != offered:
        k = next(i for i, (a, b) in enumerate(zip(written, offered)) if a != b)
        conc = "concurrent-callers" if (isinstance(ops, str) or any(o[3] for o in ops)) else "sequential-callers"
        out.append((f"C11:port:written-out-of-order:{conc}", f"{ops}: write #{k} is {written[k][-16:]!r}, offered #{k} was {offered[k][-16:]!r}"))
    w = [(t, deemed_bits(d[:-2])) for t, d in r["writes"]]
    n = len(w)
    pre = [0]
    for _, b in w:
        pre.append(pre[-1] + b)
    maxframe = max((b for _, b in w), default=0)
    P = r["maxpend"]
    worst = None
    for i in range(n):
        ti = w[i][0]
        for j in range(i, n):
            dt_ = w[j][0] - ti
            bits = pre[j + 1] - pre[i]
            allow = FILL * dt_ + BUCKET + P * maxframe
            if bits > allow + EPS and (worst is None or bits - allow > worst[0]):
                worst = (bits - allow, i, j, bits, allow, dt_)
            if (j - i + 1) > dt_ / GAP + 2 + EPS:
                out.append(("C11:port:writes-too-close", f"{ops}: {j - i + 1} writes within {dt_:.3f}s (t={ti:.3f}..)"))
                return out
    if worst:
        out.append(("C11:port:duty-cycle-exceeded", f"{ops}: {worst[3]} bits in {worst[5]:.1f}s from write #{worst[1]}, allowance {worst[4]:.0f} (fill {FILL}/s + bucket {BUCKET:.0f} + {P} pending frames)"))
    return out


# --- MQTT -------------------------------------------------------------------------------------------
class FakeMqttClient:
    def __init__(self, *a, **k):
        self.published: list = []
        self.on_connect = self.on_disconnect = self.on_message = None

    def username_pw_set(self, *a):
        pass

    def connect_async(self, *a, **k):
        pass

    def loop_start(self):
        pass

    def loop_stop(self):
        pass

    def subscribe(self, *a, **k):
        pass

    def unsubscribe(self, *a, **k):
        pass

    def disconnect(self):
        pass

    def publish(self, topic, payload=None, qos=0):
        self.published.append((self.now(), topic, payload))
        return True


def run_mqtt(ops) -> dict:
    loop = install_loop()
    real_pc = _time.perf_counter
    try:
        _time.perf_counter = lambda: loop.time()
        import ramses_tx.transport as T

        T = importlib.reload(T)
        FakeMqttClient.now = staticmethod(lambda: loop.time())
        T.mqtt.Client = FakeMqttClient
        tr = T.MqttTransport("mqtt://user:pw@localhost:1883/RAMSES/GATEWAY/18:123456", Proto(), loop=loop)

        class Msg:
            topic = "RAMSES/GATEWAY/18:123456"
            payload = b"online"

        tr._on_message(None, None, Msg())
        loop.settle()
        asleep = [0]
        maxasleep = [0]
        calls = []
        tasks = []

        async def one(frame):
            calls.append((loop.time(), frame))
            asleep[0] += 1
            maxasleep[0] = max(maxasleep[0], asleep[0])
            try:
                await tr.write_frame(frame)
            finally:
                asleep[0] -= 1

        async def script():
            n = 0
            for op in ops:
                if op[0] == "status":  # a retained / repeated status message of the MQTT gateway (it went offline, came back online)
                    class St:
                        topic = "RAMSES/GATEWAY/18:123456"
                        payload = op[1].encode()

                    tr._on_message(None, None, St())
                    await asyncio.sleep(0)
                    continue
                gap, burst, ln, conc = op
                if gap:
                    await asyncio.sleep(gap)
                for _ in range(burst):
                    n += 1
                    fr = frame_of(n, ln)
                    if conc:
                        tasks.append(loop.create_task(one(fr)))
                    else:
                        await one(fr)

        main = loop.create_task(script())
        wr = [o for o in ops if o[0] != "status"]
        loop.quiesce(loop.time() + sum(o[0] for o in wr) + 2000)
        import json

        pubs = [(t, json.loads(p)["msg"]) for t, _, p in tr.client.published]
        return {"pubs": pubs, "calls": calls, "maxasleep": maxasleep[0], "sequential": not any(o[3] for o in wr), "arrivals": all(o[1] == 1 and o[0] > 0 for o in wr), "done": main.done() and all(t.done() for t in tasks), "loop_exc": [str(c.get("exception"))[:100] for c in loop.exc]}
    finally:
        _time.perf_counter = real_pc
        for t in asyncio.all_tasks(loop):
            t.cancel()
        dispose_loop(loop)


def judge_mqtt(ops, r: dict) -> list[tuple[str, str]]:
    out = []
    if r["loop_exc"]:
        out.append(("C11:mqtt:exception", f"{ops}: {r['loop_exc'][:1]}"))
    if not r["done"]:
        out.append(("C11:mqtt:write-never-returns", f"{ops}"))
    pubs = r["pubs"]
    offered = [f for _, f in r["calls"]]
    frames = [f for _, f in pubs]
    # published frames are a subsequence of the offered ones (dropped, never altered/duplicated/reordered)
    it = iter(offered)
    if not all(any(f == o for o in it) for f in frames):
        out.append(("C11:mqtt:published-not-a-subsequence", f"{ops}: {len(frames)} published of {len(offered)} offered, not in order / altered / repeated"))
    n = len(pubs)
    for i in range(n):
        for j in range(i, n):
            dt_ = pubs[j][0] - pubs[i][0]
            if (j - i + 1) > MQTT_RATE * dt_ + 2 * MQTT_TOKENS + 1 + EPS:
                out.append(("C11:mqtt:token-allowance-exceeded", f"{ops}: {j - i + 1} publishes in {dt_:.1f}s from #{i}"))
                return out
    if r["maxasleep"] > 3 and (r.get("sequential") or r.get("arrivals")):
        out.append(("C11:mqtt:writes-queued-without-bound", f"{ops}: {r['maxasleep']} writes pending at once from sequential callers"))
    return out


# ---------------------------------------------------------------------------------------------
def alphabet(quick: bool, thorough_small: bool = False):
    gaps = (0, 0.5, 30, 600)
    bursts = (1, 30, 70)
    lens = (1, 48)
    if thorough_small:
        gaps, bursts = (0, 30, 600), (1, 30)
    return [(g, b, ln, c) for g in gaps for b in bursts for ln in lens for c in (False, True)]


def sequences(quick: bool):
    A = alphabet(quick)
    for a in A:
        yield (a,)
    for a, b in itertools.product(A, A):
        yield (a, b)
    if not quick:
        S = alphabet(False, True)
        for s in itertools.product(S, repeat=3):
            yield s
    # sustained streams far above the MQTT limit (over-budget writes must be dropped, and dropping must not earn credit)
    for period, count in ((0.01, 6000), (0.1, 3000), (0.5, 1200)):
        yield ("mqtt-only",) + tuple((period, 1, 8, True) for _ in range(count))  # independent arrivals
    # the MQTT gateway's status flapping in mid-session (offline / online, repeated online) between two bursts: no fresh allowance
    for flap in (("online",), ("offline", "online"), ("offline", "online", "online"), ("offline",)):
        for conc in (False, True):
            for gap in (0, 5):
                yield ("mqtt-only", (0, 200, 8, conc)) + tuple(("status", x) for x in flap) + ((gap, 200, 8, conc),)
    # steady streams below / at / above the limit, then a burst (what depth-2 sequences of bursts cannot express)
    for period in (1.0, 2.0, 3.3, 4.0):
        for ln in (1, 8, 48):
            yield tuple((period, 1, ln, False) for _ in range(200)) + ((0, 70, 48, True),)


def shard(arg) -> E.Tally:
    i, n, quick = arg
    logcap.install()
    t = E.Tally()
    outcomes = set()
    for j, ops in enumerate(sequences(quick)):
        if j % n != i:
            continue
        if ops and ops[0] == "mqtt-only":
            ops = ops[1:]
            m = run_mqtt(list(ops))
            t.n += 1
            for key, what in judge_mqtt(f"sustained {ops[0]} x{len(ops)}" if len(ops) > 8 else ops, m):
                t.bad(key, what, {"ops": [list(o) for o in ops], "kind": "mqtt"})
            t.by["writes"] += len(m["pubs"])
            continue
        t.n += 1
        r = run_port(list(ops))
        for key, what in judge_port(ops if len(ops) < 5 else f"steady {ops[0]} x{len(ops) - 1} + burst", r):
            t.bad(key, what, {"ops": [list(o) for o in ops], "kind": "port"})
        outcomes.add((len(r["writes"]), round(r["t_end"])))
        for dtl in ((("kw",) if quick else ("kw", "alt")) if len(ops) <= 2 else ("pos",) if len(ops) > 5 else ("kw",)):
            r2 = run_port(list(ops), dtl)
            t.n += 1
            t.by["writes"] += len(r2["writes"])
            for key, what in judge_port(ops if len(ops) < 5 else f"steady {ops[0]} x{len(ops) - 1} + burst", r2):
                t.bad(key, what + f" [caller passes disable_tx_limits ({dtl})]", {"ops": [list(o) for o in ops], "kind": "port", "dtl": dtl})
        if len(ops) <= 2 or len(ops) > 5:
            m = run_mqtt(list(ops))
            t.n += 1
            for key, what in judge_mqtt(ops if len(ops) < 5 else f"steady {ops[0]} x{len(ops) - 1} + burst", m):
                t.bad(key, what, {"ops": [list(o) for o in ops], "kind": "mqtt"})
        t.by["writes"] += len(r["writes"])
        if j % 397 == 0:
            t.sample({"ops": [list(o) for o in ops][:3], "writes": len(r["writes"]), "first": [round(x[0], 2) for x in r["writes"][:3]], "last": round(r["writes"][-1][0], 1) if r["writes"] else None})
    t.nontrivial = len(outcomes)
    t.by["sequences"] = t.n
    return t


def run(ctx) -> None:
    n = 64
    total = E.pmap(shard, [(i, n, ctx.quick) for i in range(n)], ctx.seed)
    ctx.vcount = {k: v["count"] for k, v in total.viol.items()}
    for k, v in sorted(total.viol.items()):
        ctx.violation(k, v["what"], v["replay"])
    ctx.nviol_total = total.nviol
    ctx.coverage.update(
        states=total.by["writes"],
        transitions=total.by["writes"],
        traces_validated_against_impl=total.n,
        sequences=total.n,
        distinct_outcomes=total.nontrivial,
        exhaustive=True,
        samples=total.samples[:5] or ["-"],
        rule="all operation sequences (gap in {0,0.5,30,600}s, burst in {1,30,70}, frame length in {1,48} bytes, sequential/concurrent) up to depth 2, "
        "each with the caller's disable_tx_limits flag absent and set (keyword / positional; thorough: on every other call) "
        "(thorough: + depth 3 over a 24-letter alphabet) + steady streams below/at/above the limit followed by a burst, each run on the real "
        "PortTransport.write_frame (module re-imported under a virtual perf_counter so the real decorated bucket is fresh) and the real "
        "MqttTransport.write_frame with a fake client; oracle over every pair of writes (window). states/transitions = serial writes observed",
    )
    ctx.assumptions += ["deemed bits per frame = 330 + 10 per payload hex digit (the library's own accounting)", "P (frames pending) = the maximum number of write_frame calls pending at once during the run", "idle gaps up to 600 s (10 bucket periods)"]


def replay(rep: dict):
    logcap.install()
    ops = [tuple(o) for o in rep["ops"]]
    label = ops if len(ops) < 5 else f"steady {ops[0]} x{len(ops) - 1} + burst"
    if rep["kind"] == "port":
        r = run_port(ops, rep.get("dtl"))
        return judge_port(label, r)
    return judge_mqtt(label, run_mqtt(ops))
