"""C01 - reception is total: bad input is rejected cleanly and never stops the stream (E3 + E1)."""

from __future__ import annotations

import itertools
import json

from mc import corpus
from mc import enum as E
from mc import logcap, rxworld

PROPERTY = "C01"
LEVEL = "exploration"

DTM = "2024-02-29T12:05:30.123456"
SUBST = "078FG-: #*<"
INS = "0F "
ADDRS = ("--:------", "63:262142", "18:000730", "01:145038", "99:999999")


def frame_part(line: str) -> str:
    fr = line.partition("#")[0].partition("*")[0].partition("<")[0]
    return fr.strip()


def neighbours(line: str):
    """Every single edit of `line` (= 'RSSI frame'); yields (edit label, candidate)."""
    n = len(line)
    for i in range(n):
        for ch in SUBST:
            if line[i] != ch:
                yield f"sub{i}{ch}", line[:i] + ch + line[i + 1 :]
        yield f"del{i}", line[:i] + line[i + 1 :]
        for ch in INS:
            yield f"ins{i}{ch}", line[:i] + ch + line[i:]
    # field-level edits
    f = line.split(" ")
    # layout: rssi verb(1 or 2 tokens) ...; locate by position from the right (code len payload are last three)
    code, ln, pl = f[-3], f[-2], f[-1]
    head = " ".join(f[:-3])
    for d in (-10, -1, 1, 10):
        v = int(ln) + d
        if 0 <= v <= 999:
            yield f"len{d:+d}", f"{head} {code} {v:03d} {pl}"
    yield "pl-1", f"{head} {code} {ln} {pl[:-2]}"
    yield "pl+1", f"{head} {code} {ln} {pl}00"
    yield "pl-nibble", f"{head} {code} {ln} {pl[:-1]}"
    yield "pl-empty", f"{head} {code} {ln} "
    yield "lower", line.lower()
    for k in (-6, -5, -4):  # the three address fields
        for a in ADDRS + (f[-4], f[-6]):
            g = list(f)
            if g[k] != a:
                g[k] = a
                yield f"addr{k}={a}", " ".join(g)
    for c in ("0000", "7FFF", "FFFF", "30C9", "000A", "3220", "0418", "1FC9"):
        if c != code:
            yield f"code={c}", f"{head} {c} {ln} {pl}"
    for v in (" I", "RQ", "RP", " W"):
        g = line[:4] + v + line[6:]
        if g != line:
            yield f"verb={v}", g


def classify(line: str):
    """Run one candidate through every parse entry point. -> (decodes: bool, violations)."""
    from ramses_tx import exceptions as exc
    from ramses_tx.message import Message
    from ramses_tx.packet import Packet
    from datetime import datetime as dt

    out = []
    empty = not frame_part(line)
    pkt_ok = None
    for name, fn in (
        ("from_file", lambda: Packet.from_file(DTM, line)),
        ("from_port", lambda: Packet.from_port(dt.fromisoformat(DTM), line)),
        ("from_dict", lambda: Packet.from_dict(DTM, line)),
    ):
        try:
            p = fn()
            if name == "from_file":
                pkt_ok = p
        except exc.PacketInvalid:
            pass
        except ValueError as e:
            if not empty:
                out.append((f"C01:{name}:ValueError-on-non-empty-line", f"Packet.{name}({line!r}) raised ValueError: {e}"))
        except Exception as e:  # noqa: BLE001
            out.append((f"C01:{name}:{type(e).__name__}", f"Packet.{name}({line!r}) raised {type(e).__name__}: {str(e)[:120]}"))
    decodes = False
    if pkt_ok is not None:
        try:
            m = Message(pkt_ok)
            _ = m.payload
            decodes = True
        except exc.PacketInvalid:
            pass
        except Exception as e:  # noqa: BLE001
            out.append((f"C01:Message:{type(e).__name__}", f"Message(Packet({line!r})) raised {type(e).__name__}: {str(e)[:120]}"))
    return decodes, out


def shard_types(arg) -> E.Tally:
    """Sub-check 1: exception type, for every single edit of every base; the same candidates also go through the
    real FileTransport (dict source) + ReadProtocol in batches: nothing may escape, and exactly the decodable ones arrive."""
    i, n, quick, pairs = arg
    logcap.install()
    t = E.Tally()
    bases = list(corpus.distinct_frames())
    if quick:
        bases = bases[::3]
    for j, fr in enumerate(bases):
        if j % n != i:
            continue
        line = f"045 {fr}"
        cands = [("base", line)] + list(neighbours(line))
        if pairs and j % (n * 8) == i:  # all pairs of substitutions/deletions on a few bases, restricted to field boundaries
            pos = sorted({k for k, c in enumerate(line) if c == " "} | {k + 1 for k, c in enumerate(line) if c == " "} | {len(line) - 1, len(line) - 2})
            for a, b in itertools.combinations(pos, 2):
                for ca in "0F -":
                    for cb in "0F -":
                        g = list(line)
                        g[a], g[b] = ca, cb
                        cands.append((f"sub{a}{ca}+sub{b}{cb}", "".join(g)))
        seen = set()
        batch = {}
        want = 0
        for lab, cand in cands:
            if cand in seen:
                continue
            seen.add(cand)
            t.n += 1
            dec, viols = classify(cand)
            for key, what in viols:
                t.bad(key, what, {"line": cand})
            if dec:
                t.nontrivial += 1
            # unique, increasing timestamps for the dict source
            k = len(batch)
            batch[f"2024-02-29T12:{k // 60000 % 60:02d}:{k // 1000 % 60:02d}.{k % 1000:03d}000"] = cand
            want += 1 if dec else 0
        got, lost, excs, recs = rxworld.replay_source(batch, use_real_protocol=True)
        t.by["transport_batches"] += 1
        if excs or lost != [None]:
            t.bad("C01:FileTransport(dict):stream-aborted", f"base {fr!r}: replay of {len(batch)} single-edit lines ended with {lost} / {excs[:2]}", {"base": fr, "pairs": pairs})
        elif len(got) != want:
            t.bad("C01:FileTransport(dict):delivered-count", f"base {fr!r}: {want} candidates decode on their own, {len(got)} messages delivered", {"base": fr, "pairs": pairs})
        if j % 4 == 0:  # the same candidates through the MQTT entry point (every 4th base: one transport set-up per base)
            got, raised, excs, recs = rxworld.mqtt_messages(list(batch.values()))
            t.by["mqtt_batches"] += 1
            bad_raise = [r for r in raised if r[1] != "ValueError"]
            if excs or bad_raise:
                t.bad("C01:MqttTransport:exception-escapes", f"base {fr!r}: {len(batch)} single-edit lines via MQTT: raised {bad_raise[:2]} / loop {excs[:2]}", {"base": fr, "pairs": pairs, "via": "mqtt"})
            elif len(got) != want:
                t.bad("C01:MqttTransport:delivered-count", f"base {fr!r}: {want} candidates decode on their own, {len(got)} messages delivered via MQTT", {"base": fr, "pairs": pairs, "via": "mqtt"})
        if j % 97 == 0:
            t.sample(cands[len(cands) // 3][1])
    t.by["candidates"] = t.n
    return t


def shard_words(arg) -> E.Tally:
    """Sub-check 1b: every payload in the <= k-deviation language of every verb/code regex (the quantifier's 'all payloads
    matching the per-code regex of every known verb/code'), under each address shape the verb is used with: decoded or
    rejected with the library's own invalid-packet error - nothing else."""
    i, n, quick = arg
    from checks.c05_payloads import ADDRS, SPECIAL
    from mc import rxlang
    from ramses_tx.ramses import CODES_SCHEMA
    import re as _re

    logcap.install()
    t = E.Tally()
    j = 0
    for code, d in sorted(CODES_SCHEMA.items()):
        for verb, rx in sorted(d.items()):
            if verb not in ADDRS:
                continue
            j += 1
            if j % n != i:
                continue
            special = [w for w in SPECIAL.get(code, ()) if _re.match(rx, w)]
            for w in itertools.chain(rxlang.words(rx, k=1 if quick else 2), special):
                for a in ADDRS[verb][: 2 if quick else None]:
                    line = f"045 {verb} --- {a} {code} {len(w) // 2:03d} {w}"
                    t.n += 1
                    dec, viols = classify(line)
                    for key, what in viols:
                        t.bad(key, what, {"line": line})
                    if dec:
                        t.nontrivial += 1
    t.by["regex_words"] = t.n
    return t


# ---------------------------------------------------------------------------------------------
VALID = [
    " I --- 01:145038 --:------ 01:145038 1F09 003 FF0532",
    "RQ --- 18:000730 01:145038 --:------ 30C9 001 00",
    "RP --- 01:145038 18:000730 --:------ 30C9 003 0007D0",
    " I --- 04:056053 --:------ 01:145038 3150 002 0100",
    " I --- 01:145038 --:------ 01:145038 2309 006 0007D00107D0",
    " W --- 18:000730 01:145038 --:------ 2309 003 0107D0",
    " I --- 01:999999 --:------ 01:999999 1F09 003 FF0A00",  # a second controller's sync cycle (the port transport tracks those)
]
BAD = {
    "blank": "",
    "spaces": "   ",
    "chatter": "# evofw3 0.7.1",
    "version-reply": "!V",
    "garbage": "@@@@ not a frame @@@@",
    "bad-structure": "045  I --- 01:145038 --:------ 01:145038 1F09 003 FF053",
    "bad-len": "045  I --- 01:145038 --:------ 01:145038 1F09 004 FF0532",
    "bad-addrs": "045  I --- --:------ --:------ --:------ 0001 005 00FFFF02FF",
    "bad-addrs2": "045  I --- 01:145038 01:145038 01:145038 1F09 003 FF0532",
    "bad-payload": "045 RP --- 01:145038 18:000730 --:------ 30C9 003 FFFFFF",
    "unknown-code": "045  I --- 01:145038 --:------ 01:145038 0000 001 00",
    "array-from-non-ctl": "045  I --- 04:000001 --:------ 01:000002 30C9 006 0007D00107D0",
    "short-3220": "045 RP --- 10:000001 18:000002 --:------ 3220 001 00",
    "ot-unknown-id": "045 RP --- 10:048122 18:000730 --:------ 3220 005 0040170100",
    "000c-unknown-type": "045 RP --- 01:145038 18:000730 --:------ 000C 006 0006007FFFFF",
    "evofw3-error": "045  I --- 01:145038 --:------ 01:145038 1F09 003 FF0532 * Checksum error",
    "comment-only": " # just a comment",
    "hint-only": " < a hint",
    "rssi-missing": " I --- 01:145038 --:------ 01:145038 1F09 003 FF0532",
    "non-ascii": "045  I --- 01:145038 --:------ 01:145038 1F09 003 FF05é",
    "long": "045  I --- 01:145038 --:------ 01:145038 1F09 099 " + "00" * 99,
    "313e-overflow": "045  I --- 30:000001 --:------ 30:000001 313E 011 00FFFFFFFFFFFFFFFFFFFF",
    # sync-cycle frames that are well-formed as frames but whose payload the decoder rejects (the port transport looks at them first)
    "sync-1-byte": "045  I --- 01:145038 --:------ 01:145038 1F09 001 FF",
    "sync-2-bytes": "045  I --- 01:145038 --:------ 01:145038 1F09 002 FF05",
    "sync-4-bytes": "045  I --- 01:145038 --:------ 01:145038 1F09 004 FF053200",
    "sync-1-byte-third-ctl": "045  I --- 01:888888 --:------ 01:888888 1F09 001 FF",
}


def _stamp(k: int) -> str:
    return f"2024-02-29T12:05:{k // 10:02d}.{k % 10}00000"


def shard_stream(arg) -> E.Tally:
    """Sub-check 2: a bad line at every position of a stream of valid lines, through every transport."""
    i, n, quick = arg
    logcap.install()
    t = E.Tally()
    names = sorted(BAD)
    valid = [f"045 {v}" for v in VALID]
    base_msgs = None
    for bi, name in enumerate(names):
        if bi % n != i:
            continue
        bad = BAD[name]
        for pos in range(len(valid) + 1):
            for reps in (1, 2):
                lines = valid[:pos] + [bad] * reps + valid[pos:]
                t.n += 1
                t.nontrivial += 1
                want = [v[4:] for v in valid]
                # (a) saved-state dict
                src = {_stamp(k): ln for k, ln in enumerate(lines)}
                got, lost, excs, _ = rxworld.replay_source(src, use_real_protocol=True)
                _judge(t, f"FileTransport(dict)", name, pos, got, lost, excs, want)
                # (b) packet log (text)
                text = "".join(f"{_stamp(k)} {ln}\n" for k, ln in enumerate(lines))
                got, lost, excs, _ = rxworld.replay_source(text, use_real_protocol=True)
                _judge(t, f"FileTransport(log)", name, pos, got, lost, excs, want)
                # (c) serial port: everything in one read / one line per read
                try:
                    raw = [ln.encode("latin-1") + b"\r\n" for ln in lines]
                except UnicodeEncodeError:
                    raw = [ln.encode("utf-8") + b"\r\n" for ln in lines]
                for mode, chunks in (("one-read", [b"".join(raw)]), ("line-per-read", raw)):
                    got, raised, excs, _ = rxworld.port_reads(chunks, use_real_protocol=True)
                    _judge(t, f"PortTransport({mode})", name, pos, got, [None] if not raised else raised, excs, want)
                # (d) MQTT: each line in a well-formed ramses_esp JSON envelope; only a ValueError (empty / undatable line) may
                # come out of the callback, and only for the bad line itself
                got, raised, excs, _ = rxworld.mqtt_messages(lines)
                other = [r for r in raised if r[1] != "ValueError" or not (pos <= r[0] < pos + reps)]
                _judge(t, "MqttTransport", name, pos, got, [None] if not other else other, excs, want)
            # (e) MQTT: a valid frame inside an envelope whose timestamp is undatable / has no zone / has no fraction
            # (g) a port with sending enabled: a further echo of the gateway's signature (a gateway slower than the 50 ms signature poll
            #     echoes more than one) arrives at any position among valid lines, in the same read / a read of its own
            if name == names[0]:
                raw = [ln.encode("latin-1") + b"\r\n" for ln in valid]
                for k in (1, 2):
                    seq = raw[:pos] + [rxworld.SIG_ECHO + b"\r\n"] * k + raw[pos:]
                    for mode, chunks in (("one-read", [b"".join(seq)]), ("line-per-read", seq)):
                        got, raised, excs, _ = rxworld.port_reads(chunks, use_real_protocol=True, sending=True)
                        t.n += 1
                        got = [m for m in got if m._pkt.code != "7FFF"]  # (the echo itself is a valid packet: delivering it is fine)
                        _judge(t, f"PortTransport(sending,{mode})", "signature-echo", pos, got, [None] if not raised else raised, excs, [v[4:] for v in valid])
            # (f) saved-state dict / packet log: a valid frame under a timestamp that cannot be dated (or an odd but datable one)
            for ts_name, ts in () if name != names[0] else (("empty", ""), ("words", "yesterday at noon"), ("month-13", "2024-13-29T12:05:59.500000"), ("truncated", "2024-02-29T12:"), ("digit-O", "2024-02-29T12:O5:59.500000"), ("epoch", "1970-01-01T00:00:13.000000"), ("far-future", "2099-12-31T23:59:59.999999")):
                datable = ts_name in ("epoch", "far-future")
                lines = valid[:pos] + [valid[0]] + valid[pos:]
                want2 = [v[4:] for v in valid]
                if datable:
                    want2 = want2[:pos] + [valid[0][4:]] + want2[pos:]
                keys = [_stamp(k) for k in range(len(lines))]
                keys[pos] = ts
                t.n += 1
                got, lost, excs, _ = rxworld.replay_source(dict(zip(keys, lines)), use_real_protocol=True)
                _judge(t, "FileTransport(dict)", f"ts:{ts_name}", pos, got, lost, excs, want2)
                if len(ts) == 26:  # (a log line is cut at fixed columns: only same-width stamps are 'a line with a bad timestamp')
                    text = "".join(f"{k_} {ln}\n" for k_, ln in zip(keys, lines))
                    got, lost, excs, _ = rxworld.replay_source(text, use_real_protocol=True)
                    _judge(t, "FileTransport(log)", f"ts:{ts_name}", pos, got, lost, excs, want2)
            for ts_name, ts in () if name != names[0] else (("empty", ""), ("words", "yesterday at noon"), ("no-zone", "2024-02-29T12:05:59.123456"), ("no-fraction", "2024-02-29T12:05:59+00:00"), ("zulu", "2024-02-29T12:05:59.5Z"), ("epoch-aware", "1970-01-01T00:00:13+00:00"), ("epoch-zulu", "1970-01-01T00:00:13Z"), ("epoch-naive", "1970-01-01T00:00:13.000000"), ("far-future", "2099-12-31T23:59:59.999999+00:00"), ("offset", "2024-02-29T14:05:59.5+02:00")):
                lines = valid[:pos] + [valid[0]] + valid[pos:]
                stamps = [f"2024-02-29T12:05:{k:02d}.000000+00:00" for k in range(len(lines))]
                stamps[pos] = ts
                got, raised, excs, _ = rxworld.mqtt_messages(lines, stamps)
                datable = ts_name not in ("empty", "words")
                other = [r for r in raised if r[1] != "ValueError" or r[0] != pos or datable]
                t.n += 1
                want2 = [v[4:] for v in valid]
                if datable:
                    want2 = want2[:pos] + [valid[0][4:]] + want2[pos:]
                _judge(t, "MqttTransport", f"{name}+ts:{ts_name}" if False else f"ts:{ts_name}", pos, got, [None] if not other else other, excs, want2)
    t.by["streams"] = t.n
    return t


def _judge(t, via, name, pos, got, lost, excs, want) -> None:
    frames = [str(m._pkt) for m in got]
    rep = {"bad": name, "pos": pos}
    if excs:
        t.bad(f"C01:{via}:loop-exception:{name}", f"bad line {name!r} at position {pos}: loop exception {excs[:1]}", rep)
    if lost != [None]:
        t.bad(f"C01:{via}:stream-aborted:{name}", f"bad line {name!r} at position {pos}: ended with {lost}", rep)
    if frames != want:
        t.bad(f"C01:{via}:valid-lines-lost:{name}", f"bad line {name!r} at position {pos}: delivered {len(frames)}/{len(want)} valid lines: {frames}", rep)


# ---------------------------------------------------------------------------------------------
STREAM = (
    b"045  I --- 01:145038 --:------ 01:145038 1F09 003 FF0532\r\n"
    b"# evofw3 0.7.1\r\n"
    b"\r\n"
    b"046 RQ --- 18:000730 01:145038 --:------ 30C9 001 00\r\n"
    b"047 RP --- 01:145038 18:000730 --:------ 30C9 003 0007D0\r\n"
    b"\r"
    b"048  I --- 04:056053 --:------ 01:145038 3150 002 0100\r\n"
)


def shard_cuts(arg) -> E.Tally:
    """Sub-check 3: every way of splitting the same byte stream into reads (<= k cuts), + empty reads, + 1-byte reads."""
    i, n, k = arg
    logcap.install()
    t = E.Tally()
    L = len(STREAM)
    ref, raised, excs, _ = rxworld.port_reads([STREAM])
    want = [str(p) for p in ref]
    assert len(want) == 4 and not raised and not excs, (want, raised, excs)

    def run(chunks, label):
        t.n += 1
        got, raised, excs, _ = rxworld.port_reads(chunks)
        frames = [str(p) for p in got]
        if frames != want or raised or excs:
            t.bad(
                "C01:PortTransport:frames-depend-on-read-boundaries",
                f"reads cut at {label}: delivered {frames} (raised {raised}, loop {excs[:1]}), uncut read delivers {want}",
                {"cuts": label},
            )

    j = 0
    for ncuts in range(1, k + 1):
        for cuts in itertools.combinations(range(1, L), ncuts):
            j += 1
            if j % n != i:
                continue
            b = (0,) + cuts + (L,)
            run([STREAM[b[x] : b[x + 1]] for x in range(len(b) - 1)], list(cuts))
            t.nontrivial += 1
    if i == 0:
        run([STREAM[x : x + 1] for x in range(L)], "every byte")
        for c in range(1, L):
            run([STREAM[:c], b"", STREAM[c:]], [c, "empty read"])
            run([b"", STREAM[:c], STREAM[c:], b""], ["empty", c, "empty"])
    t.by["partitions"] = t.n
    return t


def _dispatch(job) -> E.Tally:
    return globals()[job[0]](job[1])


def run(ctx) -> None:
    q = ctx.quick
    n = 32
    jobs = [("shard_types", (i, n, q, not q)) for i in range(n)]
    jobs += [("shard_words", (i, 16, q)) for i in range(16)]
    jobs += [("shard_stream", (i, 8, q)) for i in range(8)]
    jobs += [("shard_cuts", (i, 16, 2 if q else 3)) for i in range(16)]
    total = E.pmap(_dispatch, jobs, ctx.seed)
    E.report(
        ctx,
        total,
        rule="(1) every single edit (substitute each of '078FG-: #*<', delete, insert '0F ' at every position; length/payload/address/code/verb field "
        "edits) of one line per distinct (verb, code, length, address shape, device types) signature of the repo's logs, through Packet.from_file/"
        "from_port/from_dict + Message, and in batches through the real FileTransport+ReadProtocol; (1b) every word within 1 (thorough 2) class-position deviations of every structural variant of every verb/code payload regex, under the address shapes of that verb; (2) each of 26 bad-line classes x every position "
        "in a 7-line stream (incl. sync cycles of two controllers) x {dict, log, serial one-read, serial line-per-read, MQTT message} + MQTT envelopes with undatable / zone-less / fraction-less timestamps at every position; every 4th base's single-edit candidates also through MqttTransport._on_message; (3) every partition of a 236-byte serial stream into reads with "
        "<= 2 (thorough 3) cuts, all-1-byte reads, an empty read at every position. non-trivial = candidates that still decode / streams / partitions",
        exhaustive=True,
    )
    ctx.assumptions += ["edit alphabet as listed; MQTT messages are well-formed JSON envelopes {msg, ts} (a malformed envelope is not 'a line offered as a frame')"]


def replay(rep: dict):
    logcap.install()
    if "line" in rep:
        return classify(rep["line"])[1]
    if "cuts" in rep:
        t = E.Tally()
        for i in range(16):
            t.merge(shard_cuts((i, 16, 2)))
        return [(k, v["what"]) for k, v in t.viol.items()]
    if "bad" in rep:
        t = E.Tally()
        for i in range(8):
            t.merge(shard_stream((i, 8, True)))
        return [(k, v["what"]) for k, v in t.viol.items()]
    t = E.Tally()
    for i in range(32):
        t.merge(shard_types((i, 32, True, rep.get("pairs", False))))
    return [(k, v["what"]) for k, v in t.viol.items()]
