"""C06 - request and reply correlate (E3 driving the real QoS FSM states on the virtual loop)."""

from __future__ import annotations

import gc

from mc import corpus
from mc import enum as E
from mc import logcap, rxlang
from mc.vloop import dispose_loop, install_clock, install_loop, make_clock

PROPERTY = "C06"
LEVEL = "exploration"

REAL_GWY = "18:123456"
NULL_0418 = "000000B0000000000000000000007FFFFF7000000000"


def ctx_span(code: str, verb: str) -> tuple | None:
    """Where the context lives in a payload (reference, written from the protocol description):
    None = the code has no index/context."""
    from ramses_tx.ramses import CODE_IDX_ARE_NONE

    if code in ("0005", "000C"):
        return ((0, 4),)
    if code == "0404":
        return ((0, 2), (2, 4), (10, 12))  # zone, zone/DHW marker (20/23), fragment number
    if code in ("0418", "3220", "2411"):  # log index / OpenTherm msg-id / fan parameter id: third byte
        return ((4, 6),)
    if code == "1FC9" or code in CODE_IDX_ARE_NONE or code in ("7FFF", "10E0", "0001"):
        return None
    return ((0, 2),)


def get_ctx(code, verb, pl):
    sp = ctx_span(code, verb)
    return None if sp is None else tuple(pl[a:b] for a, b in sp)


def put_ctx(code, verb, pl, ctx):
    sp = ctx_span(code, verb)
    if sp is None:
        return pl
    g = pl
    for (a, b), v in zip(sp, ctx):
        if len(g) < b:
            return None
        g = g[:a] + v + g[b:]
    return g


def other_ctxs(code, verb, ctx):
    """Contexts that differ from ctx (another zone / log index / msg-id / fragment / DHW-vs-zone)."""
    out = []
    if ctx is None:
        return out
    if code == "0404":
        z, m, f = ctx
        out = [(z, m, f"{(int(f, 16) % 5) + 1:02X}" if f != "01" else "02"), (z, "23" if m == "20" else "20", f)]
        if m != "23":  # the DHW schedule has no zone: its first byte is not part of the context
            out.insert(0, (("01" if z != "01" else "02"), m, f))
    elif code in ("0005", "000C"):
        v = ctx[0]
        out = [(("01" if v[:2] != "01" else "02") + v[2:],), (v[:2] + ("08" if v[2:] != "08" else "04"),)]
    elif code == "1100":  # the only context is 'the boiler-relay domain FC' or not
        out = [("00",)] if ctx[0] == "FC" else [("FC",)]
    else:
        v = ctx[0]
        for alt in ("00", "01", "0B", "05", "11"):
            if alt != v:
                out.append((alt,))
                if len(out) == 2:
                    break
    return [o for o in out if o != ctx]


class Fsm:
    """A real PortProtocol/ProtocolContext with a harness transport; packets are injected by hand."""

    def __init__(self, active_gwy: str | None) -> None:
        import ramses_tx.protocol as P
        from ramses_tx.typing import QosParams

        self.loop = install_loop()
        self.vdt = make_clock(self.loop)
        install_clock(self.vdt)
        P._DBG_DISABLE_IMPERSONATION_ALERTS = True
        P.DEFAULT_QOS._wait_for_reply = None
        self.written: list[str] = []
        w = self

        class Tx:
            _extra = {"active_gwy": active_gwy, "is_evofw3": True}

            def get_extra_info(s, name, default=None):
                v = s._extra.get(name, default)
                return default if v is None else v

            def is_closing(s):
                return False

            def _dt_now(s):
                return w.vdt.now()

            async def write_frame(s, frame, disable_tx_limits=False):
                w.written.append(frame)

        self.proto = P.PortProtocol(lambda m: None, disable_qos=False)
        self.proto.connection_made(Tx(), ramses=True)
        self.loop.settle()
        self.QosParams = QosParams
        self.res: list = []

    def send(self, cmd) -> None:
        async def go():
            try:
                pkt = await self.proto.send_cmd(cmd, qos=self.QosParams(wait_for_reply=True, max_retries=0, timeout=20))
                self.res.append(("pkt", str(pkt)))
            except Exception as e:  # noqa: BLE001
                self.res.append(("exc", type(e).__name__, str(e)[:100]))

        self.task = self.loop.create_task(go())
        self.loop.settle()

    def inject(self, frame: str) -> str | None:
        """-> None if the packet could not even be built (not a well-formed packet)."""
        from ramses_tx import exceptions as exc
        from ramses_tx.packet import Packet

        try:
            pkt = Packet(self.vdt.now(), "045 " + frame)
        except exc.PacketInvalid:
            return None
        self.proto.pkt_received(pkt)
        self.loop.settle()
        return "ok"

    def state(self) -> str:
        return type(self.proto._context._state).__name__

    def close(self) -> None:
        dispose_loop(self.loop)


def reply_payloads(code: str, rverb: str, req_pl: str, rverb_regex: str) -> list[str]:
    """Payloads a conforming device could send back for this request: reply-regex words / log examples carrying the request's context."""
    req_verb = "RQ" if rverb == "RP" else " W"
    ctx = get_ctx(code, req_verb, req_pl)
    cands = []
    for fr in corpus.distinct_frames("frame"):
        f = fr.split()
        if fr[:2] == rverb and f[-3] == code and f[-5] != "--:------" and f[-4] == "--:------" and f[-5] != f[-6]:  # an addressed reply
            cands.append(f[-1])
            if len(cands) >= 3:
                break
    import re

    for w in rxlang.words(rverb_regex, k=0):
        cands.append(w)
        if len(cands) >= 6:
            break
    out = []
    rx = re.compile(rverb_regex)
    for c in cands:
        g = put_ctx(code, rverb, c, ctx) if ctx is not None else c
        if g and rx.match(g) and g not in out:
            out.append(g)
    return out[:4]


def check_command(t: E.Tally, cmd, active: str | None, label: str) -> None:
    from ramses_tx.ramses import CODES_SCHEMA

    frame = str(cmd)
    rep = {"frame": frame, "active": active, "label": label}
    verb, code = frame[:2], frame.split()[-3]
    f = frame.split()
    src, dst = (f[-6], f[-5]) if f[-5] != "--:------" else (f[-6], f[-4])
    pl = f[-1]
    t.n += 1
    # what the gateway actually puts on the air: an evofw3 writes its real id into the FIRST address field only
    wire = frame.replace("18:000730", REAL_GWY) if not label.startswith("to-gateway") else (frame[:7] + frame[7:].replace("18:000730", REAL_GWY, 1) if frame[7:16] == "18:000730" else frame)
    fsm = Fsm(active)
    try:
        fsm.send(cmd)
        if fsm.state() != "WantEcho" or not fsm.written:
            t.bad(f"C06:not-sent:{label}", f"{frame!r}: state {fsm.state()} after send, written={fsm.written}, res={fsm.res}", rep)
            return
        ctx = get_ctx(code, verb, pl)
        # --- near-miss echoes: exactly one of code / verb / source / context differs
        misses = []
        for c2 in ("30C9", "2309", "000A", "0004"):
            if c2 != code:
                misses.append(("code", wire.replace(f" {code} ", f" {c2} ", 1)))
                break
        for v2 in ("RQ", " W", " I", "RP"):
            if v2 != verb:
                misses.append(("verb", v2 + wire[2:]))
                break
        other_src = "01:999999" if not wire.split()[-6].startswith("18:") else "13:999999"
        misses.append(("src", wire.replace(wire.split()[-6], other_src, 1)))
        if active and wire.split()[-6].startswith("18:"):  # another gateway's identical frame (only tellable when our own id is known)
            misses.append(("src", wire.replace(wire.split()[-6], "18:999999", 1)))
        for oc in other_ctxs(code, verb, ctx):
            g = put_ctx(code, verb, pl, oc)
            if g:
                misses.append(("context", wire[: wire.rfind(" ") + 1] + g))
        for what, m in misses:
            if fsm.inject(m) is None:
                continue
            t.n += 1
            if fsm.state() != "WantEcho" or fsm.res:
                t.bad(f"C06:echo-near-miss-accepted:{what}:{code if what == 'context' else '*'}", f"command {frame!r}: packet {m!r} (other {what}) moved the FSM to {fsm.state()} / {fsm.res}", rep)
                return
        # --- the echo (with the gateway's real id)
        if fsm.inject(wire) is None:
            return
        has_reply = cmd.rx_header is not None
        if label.startswith("to-gateway"):  # (only the echo is judged: who would answer is the gateway itself)
            if fsm.state() == "WantEcho" and not fsm.res:
                t.bad(f"C06:echo-not-recognised:{label}", f"command {frame!r}, active gateway {active}: echo {wire!r} left the FSM in {fsm.state()}", rep)
            return
        if has_reply:
            if fsm.state() != "WantRply":
                t.bad(f"C06:echo-not-recognised:{label}", f"command {frame!r}, active gateway {active}: echo {wire!r} left the FSM in {fsm.state()} ({fsm.res})", rep)
                return
        else:
            if not fsm.res or fsm.res[0][0] != "pkt":
                t.bad(f"C06:echo-not-recognised:{label}", f"command {frame!r}, active gateway {active}: echo {wire!r} -> {fsm.state()} {fsm.res}", rep)
            return
        t.nontrivial += 1
        # --- replies
        rverb = "RP" if verb == "RQ" else " I"
        regex = CODES_SCHEMA.get(code, {}).get(rverb)
        if not regex:
            return
        gw = REAL_GWY if src == "18:000730" else src  # the reply goes to whoever asked
        rpls = reply_payloads(code, rverb, pl, regex)
        if code == "0418" and verb == "RQ":
            rpls = rpls[:2] + [NULL_0418]
        if not rpls:
            return
        good = f"{rverb} --- {dst} {gw} --:------ {code} {len(rpls[0]) // 2:03d} {rpls[0]}"
        rmiss = []
        for c2 in ("30C9", "2309", "000A", "0004"):
            if c2 != code:
                rmiss.append(("code", good.replace(f" {code} ", f" {c2} ", 1)))
                break
        rmiss.append(("verb", (" I" if rverb == "RP" else "RP") + good[2:]))
        od = dst[:3] + "999999"
        rmiss.append(("src", good.replace(dst, od, 1)))
        if code == "0418":
            rmiss.append(("src", f"RP --- {od} {gw} --:------ 0418 022 {NULL_0418}"))
        rctx = get_ctx(code, rverb, rpls[0])
        for oc in other_ctxs(code, rverb, rctx):
            g = put_ctx(code, rverb, rpls[0], oc)
            if g and not (code == "0418" and g == NULL_0418):
                rmiss.append(("context", good[: good.rfind(" ") + 1] + g))
        for what, m in rmiss:
            if fsm.inject(m) is None:
                continue
            t.n += 1
            if fsm.state() != "WantRply" or fsm.res:
                t.bad(f"C06:reply-near-miss-accepted:{what}:{code if what == 'context' or code == '1FC9' else '*'}", f"command {frame!r}: packet {m!r} (other {what}) was taken for the reply: {fsm.state()} {fsm.res}", rep)
                return
        # each proper reply, on a fresh FSM for all but the first
        for k, rp in enumerate(rpls):
            reply = f"{rverb} --- {dst} {gw} --:------ {code} {len(rp) // 2:03d} {rp}"
            if k:
                fsm.close()
                fsm = Fsm(active)
                fsm.send(cmd)
                fsm.inject(wire)
                if fsm.state() != "WantRply":
                    break
            if fsm.inject(reply) is None:
                continue
            t.n += 1
            if not fsm.res or fsm.res[0][0] != "pkt" or fsm.res[0][1].strip() != reply.strip():
                t.bad(f"C06:reply-not-recognised:{label if label.startswith('sweep:') else code}", f"command {frame!r}: proper reply {reply!r} -> {fsm.state()} {fsm.res}", rep)
                break
        # --- the proper reply overtaking the echo (both orders are 'the proper reply from the addressed device')
        fsm.close()
        fsm = Fsm(active)
        fsm.send(cmd)
        reply = f"{rverb} --- {dst} {gw} --:------ {code} {len(rpls[0]) // 2:03d} {rpls[0]}"
        # (only with the gateway's id known: before its own echo an unidentified gateway cannot tell that a reply addressed to
        #  18:123456 is meant for it - ignoring it then is the conservative choice, and the retransmission recovers)
        if active and fsm.state() == "WantEcho" and fsm.inject(reply) is not None:
            t.n += 1
            if not fsm.res:
                fsm.inject(wire)
            if not fsm.res or fsm.res[0][0] != "pkt" or fsm.res[0][1].strip() != reply.strip():
                t.bad("C06:reply-not-recognised:before-echo" + (f":{label}" if label.startswith("sweep:") else ""), f"command {frame!r}, active gateway {active}: proper reply {reply!r} arriving before the echo, then the echo -> {fsm.state()} {fsm.res}", rep)
    finally:
        fsm.close()


def commands(quick: bool):
    """(label, Command): every distinct frame built by the public constructors over their C03 domains + raw RQ/W regex words."""
    from checks import c03_builders as B
    from ramses_tx.command import CODE_API_MAP, Command
    from ramses_tx.ramses import CODES_SCHEMA

    seen = set()
    for c in B.cases(True):
        if not c.ok:
            continue
        try:
            cmd = CODE_API_MAP[c.api](*c.args, **c.kw)
        except Exception:  # noqa: BLE001
            continue
        fr = str(cmd)
        key = (fr[:2], fr.split()[-3], fr.split()[-1][:12], len(fr.split()[-1]))
        if key in seen:
            continue
        seen.add(key)
        yield c.fn, cmd
    for code, d in sorted(CODES_SCHEMA.items()):
        for verb in ("RQ", " W"):
            rx = d.get(verb)
            if not rx or code == "1FC9":  # binding frames are only ever sent by (faked) devices with real ids: constructor cases cover them
                continue
            dst = {"3220": "10:067219", "3EF0": "13:049798", "3EF1": "13:049798", "22F1": "32:155617", "22F3": "32:155617", "22F7": "32:155617", "2411": "32:155617", "31DA": "32:155617", "31D9": "32:155617"}.get(code, "01:145038")
            n = 0
            for w in rxlang.words(rx, k=1):
                key = (verb, code, w[:12], len(w))
                if key in seen:
                    continue
                seen.add(key)
                try:
                    cmd = Command.from_attrs(verb, dst, code, w)
                    _ = cmd.tx_header, cmd.rx_header  # a word whose index the library rejects for this code is not a sendable command
                except Exception:  # noqa: BLE001
                    continue
                yield f"raw:{verb.strip()}|{code}", cmd
                n += 1
                if n >= (12 if quick else 60):
                    break


    # device-type sweep: every request code addressed to a device of every type (the proper reply comes from that device, carrying
    # the request's context) - the header rules depend on the types of the two ends, not only on the code
    for code, d in sorted(CODES_SCHEMA.items()):
        rx = d.get("RQ")
        if not rx or not d.get("RP") or code in ("1FC9", "0404", "0418"):
            continue
        w = next(iter(rxlang.words(rx, k=0)), None)
        if w is None:
            continue
        for dst in ("02:111111", "04:111111", "07:111111", "10:111111", "12:111111", "13:111111", "22:111111", "23:111111", "30:111111", "32:111111", "34:111111"):
            try:
                cmd = Command.from_attrs("RQ", dst, code, w)
                _ = cmd.tx_header, cmd.rx_header
            except Exception:  # noqa: BLE001
                continue
            yield f"sweep:to-type-{dst[:2]}", cmd


    # requests / writes addressed to the gateway itself through the 18:000730 placeholder, from the gateway's real id or from a
    # device it impersonates: the echo comes back verbatim (only the first address field is ever rewritten)
    for src in (REAL_GWY, "30:111111"):
        for verb, code, pl in (("RQ", "10E0", "00"), ("RQ", "0016", "00FF"), (" W", "2309", "0107D0"), ("RQ", "30C9", "00"), (" W", "1FC9", "0023093EF000")):
            try:
                cmd = Command.from_attrs(verb, "18:000730", code, pl, from_id=src)
                _ = cmd.tx_header, cmd.rx_header
            except Exception:  # noqa: BLE001
                continue
            yield f"to-gateway:from-{src[:2]}", cmd


def shard(arg) -> E.Tally:
    i, n, quick = arg
    logcap.install()
    t = E.Tally()
    for j, (label, cmd) in enumerate(commands(quick)):
        if j % n != i:
            continue
        for active in (REAL_GWY, None):
            if active is None and label.startswith("to-gateway"):
                continue  # (a gateway that does not know its own id cannot tell its real id from a foreign gateway's)
            check_command(t, cmd, active, label)
        t.by["commands"] += 1
        if j % 499 == 0:
            t.sample(str(cmd))
        if j % 200 == 0:
            gc.collect()
    return t


def run(ctx) -> None:
    n = 32
    total = E.pmap(shard, [(i, n, ctx.quick) for i in range(n)], ctx.seed)
    E.report(
        ctx,
        total,
        rule="every distinct command frame built by the public constructors over their (C03) argument domains + raw RQ/W words of every schema regex, "
        "under gateway id known / unknown; each is sent through a real PortProtocol on the virtual loop, then fed: near-miss echoes (other code / verb / "
        "source / context) which must be ignored, its echo with the gateway's real id which must be recognised, near-miss replies (other code / verb / "
        "responding device / context, incl. a foreign 0418 null entry) which must be ignored, and each proper reply (log examples + reply-regex words "
        "carrying the request's context, incl. the 0418 null entry) which must be returned to the caller. non-trivial = commands that expect a reply",
        exhaustive=True,
    )
    ctx.assumptions += ["context positions per code are a reference table in the check (zone idx byte 0; 0005/000C bytes 0-1; 0404 zone+marker+fragment; 0418/3220 byte 2)", "a reply addressed to another gateway is not a near miss (the statement does not list dst)"]


def replay(rep: dict):
    from ramses_tx.command import Command

    logcap.install()
    t = E.Tally()
    check_command(t, Command(rep["frame"]), rep["active"], rep.get("label", "replay"))
    return [(k, v["what"]) for k, v in t.viol.items()]
