"""C12 - active discovery reconstructs the controller's configuration, whatever it is.

The real Gateway (discovery enabled, no schema) runs on the virtual loop against a scripted controller
(mc.ctlsim.CfgCtl, the reference model: a configuration dict answered the way an evohome answers RQ|0005 / RQ|000C).

  A. configurations: the full product of zone slots x classes x sensor kinds x actuator counts x DHW part subsets x
     appliance kinds (plus single-zone sweeps over all 12 indexes, all 12 zones at once, both 000C element layouts),
     no faults, horizon 300 virtual seconds: the reported schema must equal the configuration;
  B. fault sequences: for representative configurations every assignment of fates to the 0005/000C exchanges of the
     first polling round with <= D deviations {this transmission lost, this reply lost, the whole command lost (every
     retransmission), every reply lost}, horizon 25 virtual hours (the next 24-hourly round): the schema must still
     end equal to the configuration, and at every sample on the way it must only contain facts the controller stated
     and never lose one (monotone).
"""

from __future__ import annotations

import gc
import itertools
import json
import multiprocessing as mp

from mc import ctlsim as S
from mc import explore as X
from mc import gwyworld as G
from mc import logcap
from mc.explore import Chooser

PROPERTY = "C12"
LEVEL = "model_checking"
CTL = S.CTL
TOPO = ("0005", "000C")
SYNC = f" I --- {CTL} --:------ {CTL} 1F09 003 FF0532"


# ---------------------------------------------------------------------------------------------------------
# configurations


def zone_cfg(idx: str, klass: str, sensor: str, nacts: int) -> dict:
    z = int(idx, 16)
    atype = "04" if klass == "08" else "13"
    acts = [f"{atype}:{(z + 1) * 1000 + k:06d}" for k in range(nacts)]
    if sensor == "own":  # the zone's first actuator doubles as its sensor (TRV) - else a TRV that is only a sensor
        sid = acts[0] if acts and klass == "08" else f"04:{(z + 1) * 1000 + 900:06d}"
    elif sensor == "CTL":
        sid = "CTL"
    elif sensor is None:
        sid = None
    else:
        sid = f"{sensor}:{(z + 1) * 1000 + 500:06d}"
    return {"class": klass, "sensor": sid, "acts": acts}


def dhw_cfg(parts) -> dict | None:
    if not parts:
        return None
    return {
        "sensor": "07:000001" if "s" in parts else None,
        "dhw_valve": "13:000002" if "d" in parts else None,
        "htg_valve": "13:000003" if "h" in parts else None,
    }


APP = {None: None, "bdr": "13:000099", "otb": "10:067219"}
CLASSES = ("08", "0A", "11", "0B")
DHW_SUBSETS = ["", "s", "d", "h", "sd", "sh", "dh", "sdh"]


def configs(quick: bool):
    slot00 = [None] + [(k, s, n) for k in CLASSES for s in ("34", "own", "CTL", "22") for n in (0, 1, 2, 8)]
    if quick:
        slot05, slot0b = (None, "0A"), (None, "0B")
        dhws, apps = ("", "s", "sdh"), (None, "bdr", "otb")
    else:
        slot05 = slot0b = (None,) + CLASSES
        dhws, apps = DHW_SUBSETS, (None, "bdr", "otb")
    for a, b, c, d, e in itertools.product(slot00, slot05, slot0b, dhws, apps):
        zones = {}
        if a:
            zones["00"] = zone_cfg("00", *a)
        if b:
            zones["05"] = zone_cfg("05", b, "34", 1)
        if c:
            zones["0B"] = zone_cfg("0B", c, "12", 1)
        if not zones and not d and not e:
            continue
        yield {"zones": zones, "dhw": dhw_cfg(d), "app": APP[e]}
    # any subset of zones 00-0B (thorough: all 4096; quick: sizes 0-2 and 10-12), class and sensor kind rotating with the index
    for mask in range(1, 4096):
        n = bin(mask).count("1")
        if quick and 2 < n < 10:
            continue
        idxs = [f"{i:02X}" for i in range(12) if mask >> i & 1]
        yield {"zones": {z: zone_cfg(z, CLASSES[(int(z, 16) + n) % 4], ("34", "own", "22", "12", "03")[(int(z, 16) + mask) % 5], 1) for z in idxs}, "dhw": None, "app": None}
    # sweeps: every zone index alone; all twelve zones; the short 000C element layout; a zone without a sensor
    for i in range(12):
        yield {"zones": {f"{i:02X}": zone_cfg(f"{i:02X}", CLASSES[i % 4], ("34", "own", "22", "03")[i % 4], 1 + i % 3)}, "dhw": None, "app": None}
    yield {"zones": {f"{i:02X}": zone_cfg(f"{i:02X}", CLASSES[i % 4], "34", 1 + i % 2) for i in range(12)}, "dhw": dhw_cfg("sdh"), "app": APP["bdr"]}
    for n in (2, 3, 7, 8):
        for k in ("08", "0A"):
            yield {"zones": {"01": zone_cfg("01", k, "34", n)}, "dhw": None, "app": None, "short_000c": True}
    for k in CLASSES:
        yield {"zones": {"02": zone_cfg("02", k, None, 1)}, "dhw": None, "app": None}
    # the controller is first heard while the gateway is still starting (dongle handshake in progress)
    for i in range(12):
        yield {"zones": {f"{i:02X}": zone_cfg(f"{i:02X}", CLASSES[i % 4], ("34", "own", "22", "03")[i % 4], 1 + i % 3)}, "dhw": dhw_cfg(DHW_SUBSETS[i % 8]), "app": APP[(None, "bdr", "otb")[i % 3]], "first_heard": "during_start"}


def facts_of_config(cfg: dict) -> tuple[set, set]:
    """(facts the schema must end with, facts it may additionally show)."""
    must, may = set(), set()
    for idx, z in cfg["zones"].items():
        must.add(("zone", idx))
        must.add(("class", idx, S.ZONE_CLASS[z["class"]]))
        if z["sensor"] == "CTL":
            may.add(("sensor", idx, CTL))  # a 000C cannot say so (the controller answers 'no device'): either reading
        elif z["sensor"]:
            must.add(("sensor", idx, z["sensor"]))
        for a in z["acts"]:
            must.add(("act", idx, a))
    d = cfg.get("dhw")
    if d:
        for k, name in (("sensor", "dhw_sensor"), ("dhw_valve", "hotwater_valve"), ("htg_valve", "heating_valve")):
            if d.get(k):
                must.add((name, d[k]))
    if cfg.get("app"):
        must.add(("app", cfg["app"]))
    return must, may


def facts_of_schema(schema: dict) -> set:
    out = set()
    tcs = schema.get(CTL) or {}
    for idx, z in (tcs.get("zones") or {}).items():
        out.add(("zone", idx))
        if z.get("class"):
            out.add(("class", idx, z["class"]))
        if z.get("sensor"):
            out.add(("sensor", idx, z["sensor"]))
        for a in z.get("actuators") or ():
            out.add(("act", idx, a))
    d = tcs.get("stored_hotwater") or {}
    for k, name in (("sensor", "dhw_sensor"), ("hotwater_valve", "hotwater_valve"), ("heating_valve", "heating_valve")):
        if d.get(k):
            out.add((name, d[k]))
    app = (tcs.get("system") or {}).get("appliance_control")
    if app:
        out.add(("app", app))
    for other in schema:
        if other not in (CTL, "main_tcs", "orphans_heat", "orphans_hvac") and isinstance(schema[other], dict):
            out.add(("other-system", other))
    return out


# ---------------------------------------------------------------------------------------------------------
class DiscWorld:
    def __init__(self, params: dict, prefix=(), expect=None) -> None:
        self.params = params
        self.ch = Chooser(prefix, expect)
        self.w = G.GwyWorld()
        self.loop = self.w.loop
        self.ctl = S.CfgCtl(params["cfg"])
        self.window = params.get("fault_window", 0.0)
        self.inst: dict[str, dict] = {}  # frame -> current command instance {t0, fate}
        self.samples: list[tuple] = []
        self.topo_writes = 0
        self.fates: list[tuple] = []
        self.w.on_write = self._on_write
        if params.get("first_heard") == "during_start":  # the controller's sync packet is heard during the dongle handshake
            self.w.connect_delay = 0.6
            self.w.early_frames = [SYNC]
        self.gwy = self.w.add_gateway(config={"disable_discovery": False, "enforce_known_list": False})

    def _deliver(self, frame: str) -> None:
        if not self.loop.dead:
            self.w.rx(frame, settle=False)

    def _sample(self) -> None:
        gwy = getattr(self, "gwy", None) or (self.w.gwys[0] if self.w.gwys else None)  # (may be called while the gateway is still starting)
        if not self.loop.dead and gwy is not None:
            self.samples.append((round(self.loop.time(), 2), frozenset(facts_of_schema(gwy.schema))))

    def _on_write(self, tx, frame: str) -> None:
        loop = self.loop
        f = frame.split()
        code = f[5]
        fate = "ok"
        if code in TOPO and f[3] == CTL:
            self.topo_writes += 1
            now = loop.time()
            inst = self.inst.get(frame)
            if inst is None or now - inst["t_last"] > 30.0:
                inst = {"t0": now, "fate": "ok", "n": 0}
                if now <= self.window:
                    kinds = self.params.get("fates", ("lose_tx1", "lose_rp1", "lose_cmd", "lose_rps"))
                    inst["fate"] = self.ch.choose([(("ok",), 0)] + [((k,), 1) for k in kinds])[0]
                    if inst["fate"] != "ok":
                        self.fates.append((round(now, 2), f[7], inst["fate"]))
                self.inst[frame] = inst
            inst["t_last"] = now
            inst["n"] += 1
            fate = inst["fate"]
            if fate in ("lose_tx1", "lose_rp1") and inst["n"] > 1:
                fate = "ok"
        if fate in ("lose_tx1", "lose_cmd"):
            return
        loop.call_later(0.01, self._deliver, self.w.echo(tx, frame))
        rp = self.ctl.answer(frame, tx.gid)
        if rp is None or fate in ("lose_rp1", "lose_rps"):
            return
        loop.call_later(0.03, self._deliver, rp)
        if code in TOPO:
            loop.call_later(0.05, self._sample)

    def execute(self) -> dict:
        p = self.params
        w = self.w
        # the controller's presence becomes known from its periodic sync broadcast
        if p.get("first_heard") != "during_start":
            w.rx(SYNC)
        t = self.loop.time()
        for cp in tuple(p.get("checkpoints", (10.0, 60.0))) + (p["horizon"],):
            if cp > t:
                self.loop.quiesce(cp)
                t = cp
                self._sample()
            if p.get("sync_every") and cp < p["horizon"]:
                w.rx(SYNC)
        obs = {
            "final": sorted(self.samples[-1][1]),
            "samples": [(t, sorted(s)) for t, s in _dedup(self.samples)],
            "writes": len(w.written),
            "topo_writes": self.topo_writes,
            "asked": sorted(set(self.ctl.asked)),
            "fates": list(self.fates),
            "loop_exc": w.loop_exceptions(),
            "log_exc": sorted({(r[1], r[3]) for r in logcap.CAP.records}),
            "end_t": self.loop.time(),
        }
        w.close()
        return obs


def _dedup(samples):
    out = []
    for t, s in samples:
        if not out or out[-1][1] != s:
            out.append((t, s))
    return out


def run_world(params: dict, prefix=(), expect=None):
    w = DiscWorld(params, prefix, expect)
    try:
        obs = w.execute()
    except BaseException:
        try:
            w.w.close()
        except Exception:  # noqa: BLE001
            pass
        raise
    return w.ch, obs


def oracle(obs: dict, params: dict) -> list[tuple[str, str]]:
    out = []
    must, may = facts_of_config(params["cfg"])
    final = {tuple(x) for x in obs["final"]}
    missing = must - final
    extra = final - must - may
    brief = _brief_cfg(params["cfg"])
    for m in sorted(missing):
        out.append((f"C12:missing:{m[0]}", f"after {obs['end_t']:.0f} s the schema lacks {m}; configuration {brief}; lost: {obs['fates']}"))
    for e in sorted(extra):
        out.append((f"C12:not-stated-by-controller:{e[0]}", f"the schema shows {e}, which the controller never stated; configuration {brief}"))
    prev: set = set()
    for t, s in obs["samples"]:
        cur = {tuple(x) for x in s}
        bad = cur - must - may
        for e in sorted(bad - extra):
            out.append((f"C12:not-stated-by-controller:{e[0]}:transient", f"at t={t} the schema showed {e}, which the controller never stated; configuration {brief}"))
        lost = prev - cur
        for e in sorted(lost):
            out.append((f"C12:fact-lost:{e[0]}", f"at t={t} the schema no longer shows {e} that it showed before; configuration {brief}; lost: {obs['fates']}"))
        prev = cur
    for e in obs["loop_exc"]:
        out.append((f"C12:loop-exception:{e[0]}:{e[2]}", f"unhandled in the event loop: {e}; configuration {brief}"))
    return out


def _brief_cfg(cfg: dict) -> str:
    z = {i: (v["class"], v["sensor"], len(v["acts"])) for i, v in cfg["zones"].items()}
    return json.dumps({"zones": z, "dhw": cfg.get("dhw"), "app": cfg.get("app"), **({"short_000c": True} if cfg.get("short_000c") else {})})


def outcome_digest(obs: dict) -> str:
    return X.digest({"f": obs["final"], "s": [s for _, s in obs["samples"]], "e": obs["loop_exc"]})


# ---------------------------------------------------------------------------------------------------------
def _cfg_task(args):
    chunk, horizon = args
    logcap.install()
    res = []
    for cfg in chunk:
        params = {"cfg": cfg, "horizon": horizon, "fault_window": 0.0}
        if cfg.get("first_heard"):
            params["first_heard"] = cfg["first_heard"]
        _, obs = run_world(params)
        v = oracle(obs, params)
        res.append((X.digest(obs["final"]), len(obs["asked"]), obs["writes"], [(k, w, params) for k, w in v]))
    gc.collect()
    return res


def _fault_task(args):
    params, D, audit_every, seed, shard = args
    logcap.install()

    def run(prefix, expect):
        return run_world(params, prefix, expect)

    def check(obs):
        return oracle(obs, params)

    X.set_job(run, check, outcome_digest)
    s = X._dfs(([], None, 0), D, audit_every, seed, shard)
    for vv in s.violations.values():
        vv.setdefault("params", params)
    gc.collect()
    return s


def fault_scenarios(quick: bool) -> list[tuple[dict, int]]:
    H25 = 25 * 3600.0 + 600
    base = [
        {"zones": {"00": zone_cfg("00", "08", "34", 2)}, "dhw": None, "app": None},
        {"zones": {"01": zone_cfg("01", "0A", "own", 1), "05": zone_cfg("05", "11", "CTL", 1)}, "dhw": dhw_cfg("sd"), "app": None},
        {"zones": {"0B": zone_cfg("0B", "0B", "22", 1)}, "dhw": dhw_cfg("sdh"), "app": APP["bdr"]},
        {"zones": {"00": zone_cfg("00", "08", "own", 1), "02": zone_cfg("02", "08", "34", 0)}, "dhw": dhw_cfg("h"), "app": None},
        {"zones": {}, "dhw": dhw_cfg("s"), "app": APP["bdr"]},
    ]
    sc = [({"cfg": c, "horizon": H25, "fault_window": 60.0, "checkpoints": (10.0, 60.0, 3600.0)}, 1) for c in base]
    # every PAIR of exchanges whose replies are all lost (one fate kind only, so that two deviations stay affordable in the quick tier)
    sc += [({"cfg": c, "horizon": H25, "fault_window": 60.0, "fates": ("lose_rps",), "checkpoints": (10.0, 60.0, 3600.0)}, 2) for c in (base[0], base[3])]
    if not quick:
        sc += [({"cfg": c, "horizon": H25, "fault_window": 60.0, "checkpoints": (10.0, 60.0, 3600.0)}, 2) for c in base[:1] + base[4:]]
        # a loss in the second round too: the third round (48 h) must fill it in
        sc += [({"cfg": base[0], "horizon": 49 * 3600.0 + 600, "fault_window": 25 * 3600.0, "fates": ("lose_cmd", "lose_rps"), "checkpoints": (10.0, 60.0, 3600.0, H25)}, 2)]
    return sc


def run(ctx) -> None:
    logcap.install()
    cfgs = list(configs(ctx.quick))
    cfgs = X.rotate(cfgs, ctx.seed)
    n = X.ncpu()
    csize = max(1, len(cfgs) // (n * 8))
    chunks = [(cfgs[i : i + csize], 300.0) for i in range(0, len(cfgs), csize)]
    fsc = fault_scenarios(ctx.quick)
    ftasks = []
    for p, D in fsc:
        nsh = 6 if D == 1 else (16 if p.get("fates") and len(p["fates"]) == 1 else 32)
        ftasks += [(p, D, 7, ctx.seed, (k, nsh)) for k in range(nsh)]
    ftasks.sort(key=lambda t: -t[1])
    total = X.Summary()
    finals = set()
    nviol = 0
    viol: dict[str, tuple] = {}
    vcount: dict[str, int] = {}
    asked_max = 0
    with mp.get_context("fork").Pool(n) as pool:
        fres = pool.imap_unordered(_fault_task, ftasks, chunksize=1)  # long ones first
        cres = pool.imap_unordered(_cfg_task, chunks, chunksize=1)
        for res in cres:
            for dig, asked, writes, vs in res:
                finals.add(dig)
                asked_max = max(asked_max, asked)
                for k, what, params in vs:
                    nviol += 1
                    vcount[k] = vcount.get(k, 0) + 1
                    if k not in viol or len(json.dumps(params["cfg"])) < len(json.dumps(viol[k][1]["cfg"])):
                        viol[k] = (what, params)
        for s in fres:
            total.merge(s)
    for k, (what, params) in sorted(viol.items()):
        ctx.violation(k, what, {"params": params, "choices": []})
    for vv in sorted(total.violations.values(), key=lambda v: (v["cost"], len(v["choices"]))):
        if vv["key"] not in viol:
            ctx.violation(vv["key"], vv["what"], {"params": vv["params"], "choices": vv["choices"], "labels": vv["labels"]})
    for k, c in total.vcount.items():
        vcount[k] = vcount.get(k, 0) + c
    ctx.vcount = vcount
    ctx.nviol_total = nviol + total.nviol
    ctx.coverage.update(
        states=len(cfgs) + total.nodes,
        transitions=len(cfgs) + max(1, total.nodes - len(fsc)),
        traces_validated_against_impl=len(cfgs) + total.executions,
        configurations=len(cfgs),
        distinct_final_schemas=len(finals),
        fault_executions=total.executions,
        fault_scenarios=len(fsc),
        deviation_bound_completed=max(d for _, d in fsc),
        fault_distinct_outcomes=len(total.outcomes),
        deviations_taken=dict(total.actions),
        determinism_audits=total.audited,
        max_topology_requests_answered=asked_max,
        caps_hit=0,
        exhaustive=True,
        samples=total.samples[:2] + [{"configuration": _brief_cfg(cfgs[0])}],
        rule="A: full product of zone slot 00 {absent | class RAD/VAL/ELE/MIX x sensor thermostat/own TRV/controller/digital x 0,1,2,8 actuators} x slots 05, 0B "
        "{absent | classes} x DHW part subsets x appliance {none, relay, OpenTherm bridge} + every subset of zones 00-0B (quick: of size <= 2 or >= 10) + index sweeps 00-0B, all 12 zones, short 000C layout, sensorless zones: "
        "real Gateway with discovery on for 300 virtual s against the scripted controller, schema facts == configuration facts. B: every fate assignment with <= D "
        "deviations {transmission lost, reply lost, whole command lost, all replies lost} over the 0005/000C exchanges of the first round, horizon 25 h (49 h when the "
        "second round may also lose): final schema == configuration; every sample contains only stated facts and never loses one",
    )
    ctx.assumptions += [
        "the scripted controller answers 0005/000C in the formats seen in the repo's logs (7F-FFFFFF for 'none', also when the controller itself is the zone sensor: "
        "that case is accepted as sensor unknown or sensor = controller)",
        "one device has one role in one zone (a thermostat shared by two zones is not part of the product); actuators are TRVs for radiator zones and relays otherwise",
        "non-topology polls are answered minimally or not at all; echo +10 ms, reply +30 ms",
    ]


def replay(rep: dict):
    logcap.install()
    ch, obs = run_world(rep["params"], rep.get("choices") or (), None)
    return oracle(obs, rep["params"])
