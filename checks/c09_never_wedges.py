"""C09 - the send machinery never wedges (E1: deviation-bounded schedules of the real FSM)."""

from __future__ import annotations

from checks import qos_common as QC
from checks.qos_common import ENV, FAULT, caller

PROPERTY = "C09"
LEVEL = "model_checking"

T_EDGES = [0.4999, 0.5, 0.5001, 1.4999, 1.5, 1.5001, 3.5001, 20.0]


def scenarios(quick: bool) -> list[tuple[dict, int]]:
    sc: list[tuple[dict, int]] = []
    alld = ENV + FAULT
    # one command, every deviation kind, time-outs around every library timer
    for to in T_EDGES if quick else T_EDGES + [0.25, 1.0, 3.4999, 3.5, 7.4999, 7.5, 7.5001, 30.0]:
        for wfr in (True, False):
            for retries in (0, 3) if quick else (0, 1, 3):
                p = {"qos_mode": False, "callers": [caller("rq30c9_01", wfr=wfr, retries=retries, timeout=to)], "dev": alld}
                sc.append((p, 2))
    # W with I reply, I without a reply but preceded by an impersonation notice, gateway QoS modes
    for mode in (None, True, False):
        for cmd in ("w2309_01", "i30c9_fake", "rq0418_00"):
            p = {"qos_mode": mode, "callers": [caller(cmd, timeout=20.0)], "dev": alld}
            sc.append((p, 2))
    # two commands in flight / queued, a later caller, foreign traffic
    for to in (0.5001, 1.5, 20.0):
        p = {
            "qos_mode": False,
            "callers": [caller("rq30c9_01", timeout=to), caller("w2309_02", prio="HIGH", timeout=20.0)],
            "dev": alld + ("call", "foreign"),
        }
        sc.append((p, 1 if quick else 2))
        p = {
            "qos_mode": False,
            "callers": [caller("rq30c9_01", timeout=to), caller("rq30c9_02", start="q", timeout=to)],
            "dev": alld + ("call", "foreign"),
        }
        sc.append((p, 1 if quick else 2))
    # two callers sending the SAME frame (a poller re-sending its stored command; two entities asking the same thing): a late or
    # duplicate echo/reply of the first is, byte for byte, an echo/reply of the second - in every state, incl. as it is dequeued
    for to in (0.5001, 20.0):
        for same in (None, 0):
            for start in ("t0", "q"):
                p = {
                    "qos_mode": False,
                    "callers": [caller("rq30c9_01", timeout=to), caller("rq30c9_01", same_as=same, timeout=20.0, start=start)],
                    "dev": ENV + ("call",),
                }
                sc.append((p, 2 if quick else 3))
    if not quick:
        for to in (0.5001, 1.5001, 20.0):
            p = {"qos_mode": False, "callers": [caller("rq30c9_01", timeout=to)], "dev": alld}
            sc.append((p, 3))
        p = {
            "qos_mode": False,
            "callers": [caller("rq30c9_01", timeout=0.5001), caller("w2309_02"), caller("rq30c9_03", prio="LOW", timeout=1.5001)],
            "dev": ENV + ("wfail", "disc", "call"),
        }
        sc.append((p, 2))
    return sc


def run(ctx) -> None:
    sc = scenarios(ctx.quick)
    total, byD = QC.drive(ctx, PROPERTY, sc)
    ctx.coverage.update(
        states=total.nodes,
        transitions=max(1, total.nodes - len(sc)),
        traces_validated_against_impl=total.executions,
        executions=total.executions,
        scenarios=len(sc),
        executions_by_deviation_bound={str(k): v for k, v in sorted(byD.items())},
        deviation_bound_completed=max(d for _, d in sc),
        max_depth=total.max_depth,
        distinct_outcomes=len(total.outcomes),
        deviations_taken=dict(total.actions),
        determinism_audits=total.audited,
        caps_hit=0,
        exhaustive=True,
        samples=total.samples[:3],
        rule="every schedule of each scenario with total deviation cost <= D (stateless DFS with prefix replay on a fresh "
        "real PortProtocol/ProtocolContext); states = distinct schedule prefixes (tree nodes); every trace IS an execution of the implementation",
    )
    ctx.assumptions += [
        "loop lateness <= 1 ms (W); exact timer ties keep asyncio's (when, seq) order",
        "single-threaded use of the protocol (call_soon_threadsafe == call_soon)",
        "deviations address the 3 oldest pending packets; reconnect of the same protocol object is not a library path",
    ]


def replay(rep: dict):
    return QC.replay(PROPERTY, rep)
