"""C09 - the send machinery never wedges (E1: deviation-bounded schedules of the real FSM)."""

from __future__ import annotations

from checks import qos_common as QC
from checks.qos_common import ENV, FAULT, caller

PROPERTY = "C09"
LEVEL = "model_checking"

T_EDGES = [0.4999, 0.5, 0.5001, 1.4999, 1.5, 1.5001, 3.5001, 20.0]


def scenarios(quick: bool) -> list[tuple[dict, int]]:
    sc: list[tuple[dict, int]] = []
    alld = ENV + FAULT
    # one command, every deviation kind, time-outs around every library timer
    for to in T_EDGES if quick else T_EDGES + [0.25, 1.0, 3.4999, 3.5, 7.4999, 7.5, 7.5001, 30.0]:
        for wfr in (True, False):
            for retries in (0, 3) if quick else (0, 1, 3):
                p = {"qos_mode": False, "callers": [caller("rq30c9_01", wfr=wfr, retries=retries, timeout=to)], "dev": alld}
                sc.append((p, 2))
    # W with I reply, I without a reply but preceded by an impersonation notice, gateway QoS modes
    for mode in (None, True, False):
        for cmd in ("w2309_01", "i30c9_fake", "rq0418_00"):
            p = {"qos_mode": mode, "callers": [caller(cmd, timeout=20.0)], "dev": alld}
            sc.append((p, 2))
    # two commands in flight / queued, a later caller, foreign traffic
    for to in (0.5001, 1.5, 20.0):
        p = {
            "qos_mode": False,
            "callers": [caller("rq30c9_01", timeout=to), caller("w2309_02", prio="HIGH", timeout=20.0)],
            "dev": alld + ("call", "foreign"),
        }
        sc.append((p, 1 if quick else 2))
        p = {
            "qos_mode": False,
            "callers": [caller("rq30c9_01", timeout=to), caller("rq30c9_02", start="q", timeout=to)],
            "dev": alld + ("call", "foreign"),
        }
        sc.append((p, 1 if quick else 2))
    # the owner of a call abandons it (its task is cancelled) at any moment: in flight, queued, between echo and reply
    for to in (0.5001, 20.0):
        p = {"qos_mode": False, "callers": [caller("rq30c9_01", timeout=to), caller("w2309_02", timeout=20.0)], "dev": ENV + ("cancel",)}
        sc.append((p, 2))
    sc.append(({"qos_mode": False, "callers": [caller("rq30c9_01", timeout=20.0)], "dev": ENV + ("cancel", "wfail", "disc")}, 2))
    # traffic of a block-listed device (dropped by the protocol's filter, never decoded) while commands are in flight
    for cmd in ("rq30c9_01", "w2309_01"):
        p = {"qos_mode": False, "callers": [caller(cmd, timeout=20.0), caller("rq30c9_02", timeout=20.0)], "dev": ENV + ("foreign",), "exclude": ["04:000001"], "foreign_kinds": ["blocked_bad_idx", "blocked_ok"]}
        sc.append((p, 2))
    # two callers sending the SAME frame (a poller re-sending its stored command; two entities asking the same thing): a late or
    # duplicate echo/reply of the first is, byte for byte, an echo/reply of the second - in every state, incl. as it is dequeued
    for to in (0.5001, 20.0):
        for same in (None, 0):
            for start in ("t0", "q"):
                p = {
                    "qos_mode": False,
                    "callers": [caller("rq30c9_01", timeout=to), caller("rq30c9_01", same_as=same, timeout=20.0, start=start)],
                    "dev": ENV + ("call",),
                }
                sc.append((p, 2 if quick else 3))
    if not quick:
        for to in (0.5001, 1.5001, 20.0):
            p = {"qos_mode": False, "callers": [caller("rq30c9_01", timeout=to)], "dev": alld}
            sc.append((p, 3))
        p = {
            "qos_mode": False,
            "callers": [caller("rq30c9_01", timeout=0.5001), caller("w2309_02"), caller("rq30c9_03", prio="LOW", timeout=1.5001)],
            "dev": ENV + ("wfail", "disc", "call"),
        }
        sc.append((p, 2))
    return sc


def bfs_scenarios(quick: bool) -> list[dict]:
    """State-hashing runs: ANY number of deviations of the listed kinds (the DFS above bounds their number, not their kind)."""
    sc = []
    hard = ("drop", "dup", "wfail", "disc")
    for cmd, tos in (("rq30c9_01", (0.5001, 1.5001, 20.0) if quick else T_EDGES), ("w2309_01", (20.0,)), ("i30c9_fake", (20.0,)) if not quick else ("w2309_01", ())):
        for to in tos:
            sc.append({"qos_mode": False, "flat": True, "callers": [caller(cmd, timeout=to)], "dev": hard})
    # packets held in the air while timers fire ('late'): at most one held at a time
    for to in (20.0,) if quick else (0.5001, 1.5001, 20.0):
        sc.append({"qos_mode": False, "flat": True, "max_held": 1, "callers": [caller("rq30c9_01", timeout=to)], "dev": ("drop", "late") if quick else ("drop", "dup", "late")})
    # a caller that gives up while still QUEUED behind a command in trouble, then the link goes (its cancelled future is still queued)
    sc.append({"qos_mode": False, "flat": True, "callers": [caller("rq30c9_01", timeout=20.0), caller("w2309_02", timeout=0.5001)], "dev": ("drop", "disc")})
    if not quick:
        sc.append({"qos_mode": False, "flat": True, "callers": [caller("rq30c9_01", timeout=20.0), caller("w2309_02", timeout=1.5001), caller("rq30c9_03", timeout=20.0)], "dev": ("drop", "disc")})
    # (caller cancellation is explored by the deviation-bounded search only: with it the canonical state is not yet a sound basis for
    #  merging - the merge audit found two histories that hash alike and end differently - so no state-hashing run uses it)
    # writing paused and resumed at any point (an MQTT gateway going offline / online), any number of times, among losses
    sc.append({"qos_mode": False, "flat": True, "callers": [caller("rq30c9_01", timeout=20.0)], "dev": ("drop", "pause")})
    if not quick:
        sc.append({"qos_mode": False, "flat": True, "callers": [caller("rq30c9_01", timeout=20.0), caller("w2309_02", timeout=20.0)], "dev": ("drop", "pause")})
    sc.append({"qos_mode": False, "flat": True, "callers": [caller("rq30c9_01", timeout=1.5001)], "dev": ("drop", "pause", "disc")})
    # timers sharing a loop iteration with each other / with callbacks already queued / with a packet (the coincidences the FSM's deferred
    # effects are exposed to), any number of them
    for to in (0.5001,) if quick else T_EDGES:
        sc.append({"qos_mode": False, "flat": True, "callers": [caller("rq30c9_01", timeout=to)], "dev": ("drop", "dup", "adv_late", "adv_ready", "jb")})
    sc.append({"qos_mode": False, "flat": True, "callers": [caller("rq30c9_01", timeout=0.5001), caller("w2309_02", timeout=20.0)], "dev": ("drop", "adv_late", "adv_ready")})
    # a regulated transport holds each frame for a while before writing it (duty-cycle limiter, write gap): the write completes - or
    # fails, or meets a closed connection - after the echo timer has moved the command on, or after the command is over
    for wd in (0.6,) if quick else (0.05, 0.3, 0.6, 1.2):
        sc.append({"qos_mode": False, "flat": True, "write_delay": wd, "callers": [caller("rq30c9_01", timeout=20.0)], "dev": ("drop", "wfail", "disc")})
        sc.append({"qos_mode": False, "flat": True, "write_delay": wd, "callers": [caller("rq30c9_01", timeout=0.5001), caller("w2309_02", timeout=20.0)], "dev": ("drop", "wfail", "disc")})
    if not quick:
        sc.append({"qos_mode": False, "flat": True, "callers": [caller("rq30c9_01", timeout=1.5001), caller("w2309_02", timeout=0.5001)], "dev": ("drop", "dup", "adv_late", "adv_ready", "jb")})
        sc.append({"qos_mode": False, "flat": True, "callers": [caller("rq30c9_01", timeout=20.0), caller("w2309_02", timeout=20.0)], "dev": ("drop", "dup", "pause", "disc")})
        sc.append({"qos_mode": False, "flat": True, "max_held": 1, "callers": [caller("rq30c9_01", timeout=20.0)], "dev": ("drop", "dup", "late", "wfail", "disc")})
        sc.append({"qos_mode": False, "flat": True, "callers": [caller("rq30c9_01", timeout=20.0), caller("w2309_02", timeout=20.0)], "dev": ("drop", "dup", "disc")})
        sc.append({"qos_mode": False, "flat": True, "callers": [caller("rq30c9_01", timeout=1.5001), caller("rq30c9_01", timeout=20.0, start="q")], "dev": ("drop", "dup", "call")})
        sc.append({"qos_mode": False, "flat": True, "max_held": 2, "callers": [caller("rq30c9_01", timeout=20.0)], "dev": ("drop", "dup", "late")})
        sc.append({"qos_mode": False, "flat": True, "callers": [caller("rq30c9_01", timeout=20.0), caller("w2309_02", timeout=20.0)], "dev": ("drop", "dup", "wfail", "disc")})
        sc.append({"qos_mode": False, "flat": True, "callers": [caller("rq30c9_01", timeout=20.0), caller("w2309_02", timeout=20.0), caller("rq30c9_03", timeout=20.0, prio="LOW")], "dev": ("drop", "disc")})
        sc.append({"qos_mode": False, "flat": True, "callers": [caller("rq30c9_01", timeout=0.5001), caller("w2309_02", timeout=1.5001, prio="HIGH")], "dev": ("drop", "dup", "wfail", "disc")})
    return sc


def run(ctx) -> None:
    sc = scenarios(ctx.quick)
    total, byD = QC.drive(ctx, PROPERTY, sc)
    btot, bviol, bper, bout, audits, bad = QC.bfs(ctx, PROPERTY, bfs_scenarios(ctx.quick))
    for k, v in sorted(bviol.items()):
        ctx.vcount[k] = ctx.vcount.get(k, 0) + v["count"]
        ctx.violation(k, v["what"], v["replay"])
    ctx.nviol_total = getattr(ctx, "nviol_total", 0) + sum(v["count"] for v in bviol.values())
    ctx.coverage.update(
        states=total.nodes + btot["states"],
        transitions=max(1, total.nodes - len(sc)) + btot["transitions"],
        traces_validated_against_impl=total.executions + btot["transitions"],
        state_hashing={"scenarios": bper, "states": btot["states"], "transitions": btot["transitions"], "terminal_states": btot["terminal"], "distinct_terminal_outcomes": bout, "merge_audits": audits, "merge_audits_failed": bad, "scenarios_capped": btot["capped"]},
        executions=total.executions,
        scenarios=len(sc),
        executions_by_deviation_bound={str(k): v for k, v in sorted(byD.items())},
        deviation_bound_completed=max(d for _, d in sc),
        max_depth=total.max_depth,
        distinct_outcomes=len(total.outcomes),
        deviations_taken=dict(total.actions),
        determinism_audits=total.audited,
        caps_hit=btot["capped"],
        exhaustive=True,
        samples=total.samples[:3],
        rule="every schedule of each scenario with total deviation cost <= D (stateless DFS with prefix replay on a fresh "
        "real PortProtocol/ProtocolContext); states = distinct schedule prefixes (tree nodes); every trace IS an execution of the implementation. "
        "state_hashing: breadth-first search with state hashing over the same real world (a state = canonical form of FSM state, queue, ready callbacks, "
        "timers relative to now, callers' results, packets in the air, link flags; expanded by replaying its history on a fresh world): ALL schedules "
        "with any NUMBER of deviations of the kinds listed per scenario; oracle at every quiescent state (incl. the probe command) and on every transition "
        "(no loop exception / tripped assertion / deadlock); sampled merged pairs are run on and must end alike",
    )
    ctx.assumptions += [
        "loop lateness <= 1 ms (W); exact timer ties keep asyncio's (when, seq) order",
        "single-threaded use of the protocol (call_soon_threadsafe == call_soon)",
        "deviations address the 3 oldest pending packets; reconnect of the same protocol object is not a library path",
    ]


def replay(rep: dict):
    if rep.get("world") == "qos-bfs":
        return QC.bfs_replay(PROPERTY, rep)
    return QC.replay(PROPERTY, rep)
