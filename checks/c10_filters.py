"""C10 - device filters are sound and complete (E3 over configurations x packets, through the real Gateway stack)."""

from __future__ import annotations

import itertools

from mc import enum as E
from mc import gwyworld as G
from mc import logcap

PROPERTY = "C10"
LEVEL = "exploration"

K1, K2, U, B, BK = "01:145038", "04:056053", "13:049798", "07:045960", "30:082155"
GW, FG, PH = "18:111111", "18:222222", "18:000730"
ALL, NON = "63:262142", "--:------"
POOL = (K1, K2, U, B, BK, GW, FG, PH)


def configs(quick: bool):
    known_opts = [(K1, {"class": "CTL"}), (K2, {"class": "TRV"}), (BK, {"class": "FAN"}), (GW, {"class": "HGI"}), (GW, {})]
    block_opts = [B, BK, GW]
    for kmask in range(1 << len(known_opts)):
        ks = [known_opts[i] for i in range(len(known_opts)) if kmask >> i & 1]
        ids = [k for k, _ in ks]
        if ids.count(GW) > 1:
            continue
        for bmask in range(1 << len(block_opts)):
            bl = [block_opts[i] for i in range(len(block_opts)) if bmask >> i & 1]
            for enforce in (True, False):
                for active in (GW, FG, None):
                    yield {"known": dict(ks), "block": {b: {} for b in bl}, "enforce": enforce, "active": active}


def packets():
    """(frame, src, dst): all three address shapes, src/dst from the pool (+ broadcast / null)."""
    out = []
    for src in POOL:
        out.append((f" I --- {src} {NON} {src} 30C9 003 0007D0", src, src))  # src, --, src
        out.append((f" I --- {NON} {NON} {src} 30C9 003 0007D0", src, NON))  # --, --, src
        out.append((f" I --- {src} {ALL} {NON} 1FC9 006 0030C9{_hex(src)}", src, ALL))  # to the broadcast address
        for dst in POOL:
            if dst == src:
                continue
            out.append((f" I --- {src} {NON} {dst} 30C9 003 0007D0", src, dst))  # src, --, dst
            out.append((f"RQ --- {src} {dst} {NON} 30C9 001 00", src, dst))  # src, dst, --
            out.append((f"RP --- {src} {dst} {NON} 30C9 003 0007D0", src, dst))
    # ids that only appear in a payload: a controller names a device as zone sensor / DHW sensor / actuator
    for dst in (GW, PH):
        for dev in (K2, U, B, BK):
            out.append((f"RP --- {K1} {dst} {NON} 000C 006 010400{_hex(dev)}", K1, dst))
            out.append((f"RP --- {K1} {dst} {NON} 000C 006 000D00{_hex(dev)}", K1, dst))
            out.append((f"RP --- {K1} {dst} {NON} 000C 006 020800{_hex(dev)}", K1, dst))
    return out


def _hex(dev_id: str) -> str:
    return f"{(int(dev_id[:2]) << 18) + int(dev_id[3:]):06X}"


def expected(cfg: dict, src: str, dst: str, sending: bool) -> str:
    """The statement as a predicate: 'never' (must not pass), 'always' (must pass)."""
    block, known = cfg["block"], cfg["known"]
    enforce = cfg["enforce"] and bool(known)  # an empty known list cannot be enforced (the library says so and turns it off)
    ids = [i for i in dict.fromkeys((src, dst))]
    if any(i in block for i in ids):
        return "never"
    if enforce:
        for i in ids:
            ok = i in known or (cfg["active"] is not None and i == cfg["active"]) or i in (ALL, NON) or (sending and i == PH)
            if not ok:
                return "never"
    return "always"


def run_config(cfg: dict, t: E.Tally, pkts) -> None:
    from ramses_tx.command import Command

    w = G.GwyWorld()
    rep0 = {"cfg": cfg}
    try:
        try:
            gwy = w.add_gateway(gwy_id=cfg["active"], config={"enforce_known_list": cfg["enforce"], "disable_discovery": True}, known_list=cfg["known"] or None, block_list=cfg["block"] or None)
        except Exception as e:  # noqa: BLE001
            t.bad(f"C10:gateway-does-not-start:{type(e).__name__}", f"{cfg}: {e}", rep0)
            return
        got: list = []
        gwy.add_msg_handler(lambda m: got.append(m))
        # --- receive
        for frame, src, dst in pkts:
            t.n += 1
            n0 = len(got)
            w.rx(frame)
            delivered = len(got) > n0
            exp = expected(cfg, src, dst, False)
            rep = {"cfg": cfg, "frame": frame, "dir": "rx"}
            why = _why(cfg, src, dst)
            if exp == "never" and delivered:
                t.bad(f"C10:rx:passed-although-{why}", f"{frame!r} delivered with known={list(cfg['known'])} block={list(cfg['block'])} enforce={cfg['enforce']} active={cfg['active']}", rep)
            if exp == "always" and not delivered:
                t.bad(f"C10:rx:dropped-although-allowed:{_role(cfg, src)}->{_role(cfg, dst)}", f"{frame!r} NOT delivered with known={list(cfg['known'])} block={list(cfg['block'])} enforce={cfg['enforce']} active={cfg['active']}", rep)
            for dev_id in list(gwy.device_by_id):
                if dev_id in cfg["block"]:
                    t.bad("C10:rx:device-created-for-blocked-id", f"device {dev_id} exists after {frame!r}; block={list(cfg['block'])}", rep)
                elif cfg["enforce"] and cfg["known"] and dev_id not in cfg["known"] and dev_id != cfg["active"] and dev_id != PH:
                    t.bad("C10:rx:device-created-for-unlisted-id", f"device {dev_id} exists after {frame!r}; known={list(cfg['known'])} active={cfg['active']}", rep)
        w.loop.exc.clear()  # (what the dispatcher does with contradictory payloads is C13's business)
        _send_phase(w, gwy, cfg, t)
        # --- receive again: a verdict must not depend on what was sent (or received) before
        for frame, src, dst in pkts:
            t.n += 1
            n0 = len(got)
            w.rx(frame)
            delivered = len(got) > n0
            exp = expected(cfg, src, dst, False)
            rep = {"cfg": cfg, "frame": frame, "dir": "rx-after-tx"}
            if exp == "never" and delivered:
                t.bad(f"C10:rx-after-tx:passed-although-{_why(cfg, src, dst)}", f"{frame!r} delivered after the send phase; known={list(cfg['known'])} block={list(cfg['block'])} enforce={cfg['enforce']} active={cfg['active']}", rep)
            if exp == "always" and not delivered:
                t.bad(f"C10:rx-after-tx:dropped-although-allowed:{_role(cfg, src)}->{_role(cfg, dst)}", f"{frame!r} NOT delivered after the send phase; known={list(cfg['known'])} block={list(cfg['block'])} enforce={cfg['enforce']} active={cfg['active']}", rep)
        # --- receive from a saved-state cache: the same packets restored through the library's own restore path
        seen: list = []
        orig = gwy._msg_handler
        gwy._msg_handler = lambda m: (seen.append(str(m._pkt)), orig(m))[1]
        cache = {f"2024-01-01T00:{k // 60:02d}:{k % 60:02d}.000000": f"045 {frame}" for k, (frame, _, _) in enumerate(pkts)}
        r = w.run(gwy._restore_cached_packets(cache), horizon=60)
        w.loop.quiesce(w.loop.time() + 1)
        gwy._msg_handler = orig
        if r[0] != "ok":
            t.bad(f"C10:cache:restore-fails:{r[0]}", f"restoring {len(cache)} packets: {r}; {cfg}", rep0)
        else:
            for frame, src, dst in pkts:
                t.n += 1
                delivered = frame in seen
                exp = expected(cfg, src, dst, False)
                rep = {"cfg": cfg, "frame": frame, "dir": "cache"}
                if exp == "never" and delivered:
                    named = "gateway-named-in-known-list" if cfg["known"].get(GW, {}).get("class") == "HGI" else "no-gateway-named-in-known-list"
                    why = _why(cfg, src, dst)
                    t.bad(f"C10:cache:passed-although-{why}" + ("" if why.startswith("blocked") else f":{named}"), f"{frame!r} restored from a packet cache reached the gateway's message handler; known={list(cfg['known'])} block={list(cfg['block'])} enforce={cfg['enforce']} active={cfg['active']}", rep)
                # (restoring deliberately does not enforce the known list when the gateway's own id is not configured: only
                #  the block list and - when it is enforced - the known list are demanded; over-blocking is judged on the live path)
            for dev_id in list(gwy.device_by_id):
                if dev_id in cfg["block"]:
                    t.bad("C10:cache:device-created-for-blocked-id", f"device {dev_id} exists after restoring the cache; block={list(cfg['block'])}", rep0)
    finally:
        w.close()


def _send_phase(w, gwy, cfg, t) -> None:
    from ramses_tx.command import Command

    if True:
        # --- send
        for src in (PH, K1, U, B, BK, GW, FG):
            for dst in (K1, K2, U, B, BK, GW, ALL):
                if src == dst:
                    continue
                t.n += 1
                try:
                    cmd = Command.from_attrs("RQ" if dst != ALL else " I", dst, "30C9" if dst != ALL else "1FC9", "00" if dst != ALL else f"0030C9{_hex(src)}", from_id=src)
                except Exception:  # noqa: BLE001
                    continue
                n0 = len(w.written)
                task = w.loop.create_task(gwy.async_send_cmd(cmd, max_retries=0, timeout=2))
                w.loop.settle()
                wrote = len(w.written) > n0
                raised = task.done() and not task.cancelled() and task.exception() is not None
                exc_name = type(task.exception()).__name__ if raised else None
                if not task.done():
                    task.cancel()
                w.loop.quiesce(w.loop.time() + 10)  # the shared back-off can reach 4 s
                w.loop.exc.clear()
                exp = expected(cfg, src, dst, True)
                rep = {"cfg": cfg, "src": src, "dst": dst, "dir": "tx"}
                why = _why(cfg, src, dst, True)
                if exp == "never" and (wrote or not raised):
                    t.bad(f"C10:tx:reached-radio-although-{why}", f"{str(cmd)!r} written={wrote} raised={exc_name}; known={list(cfg['known'])} block={list(cfg['block'])} enforce={cfg['enforce']} active={cfg['active']}", rep)
                if exp == "always" and not wrote:
                    t.bad(f"C10:tx:refused-although-allowed:{_role(cfg, src)}->{_role(cfg, dst)}", f"{str(cmd)!r} not written (raised {exc_name}); known={list(cfg['known'])} block={list(cfg['block'])} enforce={cfg['enforce']} active={cfg['active']}", rep)


def _role(cfg, i: str) -> str:
    if i in (ALL, NON):
        return "bcast"
    r = []
    if i == PH:
        r.append("placeholder")
    if i == cfg["active"]:
        r.append("active-gwy")
    elif i[:2] == "18" and i != PH:
        r.append("other-gwy")
    if i in cfg["known"]:
        r.append("listed")
    if i in cfg["block"]:
        r.append("blocked")
    return "+".join(r) or "unlisted"


def _why(cfg, src, dst, sending=False) -> str:
    ids = list(dict.fromkeys((src, dst)))
    for i in ids:
        if i in cfg["block"]:
            return "blocked:" + _role(cfg, i)
    for i in ids:
        if _role(cfg, i) in ("unlisted", "other-gwy", "placeholder"):
            return "unlisted:" + _role(cfg, i)
    return "?"


def shard(arg) -> E.Tally:
    i, n, quick = arg
    logcap.install()
    t = E.Tally()
    pkts = packets()
    for j, cfg in enumerate(configs(quick)):
        if j % n != i:
            continue
        run_config(cfg, t, pkts)
        t.nontrivial += 1
        t.by["configs"] += 1
        if j % 211 == 0:
            t.sample({"known_list": list(cfg["known"]), "block_list": list(cfg["block"]), "enforce": cfg["enforce"], "active_gwy": cfg["active"]})
    return t


def run(ctx) -> None:
    n = 32
    total = E.pmap(shard, [(i, n, ctx.quick) for i in range(n)], ctx.seed)
    total.nontrivial = total.by["configs"]
    E.report(
        ctx,
        total,
        rule="all configurations known_list subset of {CTL, TRV, listed+blocked FAN, gateway as HGI / without class} x block_list subset of {DHW, listed+"
        "blocked, gateway} x enforce on/off x active gateway {listed one, foreign, unknown}; for each: every packet over the three "
        "address shapes with src/dst from {listed, unlisted, blocked, listed+blocked, gateway, foreign gateway, placeholder, broadcast, null} received by a "
        "real Gateway, and every command over the same ids sent through gwy.async_send_cmd; oracle = the statement as a predicate. distinct = configurations",
        exhaustive=True,
        packets_per_config=len(packets()),
    )
    ctx.assumptions += ["an enforce request with an empty known list is not enforceable (the library warns and turns it off)", "'delivered' = reaches a handler added with gwy.add_msg_handler"]


def replay(rep: dict):
    logcap.install()
    t = E.Tally()
    run_config(rep["cfg"], t, packets())
    return [(k, v["what"]) for k, v in t.viol.items()]
