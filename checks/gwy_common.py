"""Shared driver for the gateway-history checks (C13, C15, C16): base logs, k-edit histories, views."""

from __future__ import annotations

import re
from datetime import datetime as dt, timedelta as td

from mc import corpus
from mc import gwyworld as G

SYSTEM_LOGS = [
    "tests/systems/heat_simple/packet.log",
    "tests/systems/heat_ufc_01/packet.log",
    "tests/systems/heat_otb_00/packet.log",
    "tests/systems/heat_zxdavb/packet.log",
    "tests/systems/heat_ufc_00/packet.log",
    "tests/systems/_heat_trv_00/packet.log",
    "tests/systems/_heat_trv_00/packet.log#digest",
    "tests/systems/heat_ufc_00/packet.log#digest",
]
OTHER_LOGS = [
    "tests/schemas/log_files/schema_300.log",
    "tests/schemas/log_files/schema_310.log",
    "tests/eavesdrop_dev_class/hvac/packet.log",
    "tests/eavesdrop_schema/zone_sensors_000/packet.log",
    "tests/devices/device_10.log",
    "tests_rf/logs/test_api_faultlog.log",
]


def log(rel: str) -> list[tuple[str, str, str]]:
    """[(dtm, rssi, frame)] of one repo log; 'path#digest' = its first 25 lines + the first occurrence of every further
    (verb, code, sender type, first payload byte), in order - a short history with the variety of the long one."""
    if rel.endswith("#digest"):
        full = list(corpus.log_lines(rel[:-7]))
        out, seen = list(full[:25]), set()
        for ln in full[25:]:
            f = ln[2].split()
            k = (ln[2][:2], f[-3], f[-6][:2], f[-1][:2])
            if k not in seen:
                seen.add(k)
                out.append(ln)
        return out[:160]
    return list(corpus.log_lines(rel))


def parser_logs() -> list[str]:
    import os

    return sorted(os.path.relpath(f, corpus.TESTS) for f in corpus.log_files() if "/parsers/" in f and corpus.log_lines(os.path.relpath(f, corpus.TESTS)))


def more_logs(max_lines: int = 320) -> list[str]:
    """Every other packet log of the repo (bindings, fingerprints, parser samples, eavesdrop cases, schedules, odd packets)."""
    import os

    used = {r.split("#")[0] for r in SYSTEM_LOGS + OTHER_LOGS}
    out = []
    for f in corpus.log_files():
        rel = os.path.relpath(f, corpus.TESTS)
        if rel not in used and 3 <= len(corpus.log_lines(rel)) <= max_lines:
            out.append(rel)
    return sorted(out)


def available(rels) -> list[str]:
    return [r for r in rels if log(r)]


def feed(w: G.GwyWorld, line: tuple[str, str, str]) -> None:
    d, r, fr = line
    w.rx(fr, dtm=dt.fromisoformat(d), rssi=r)


def new_world(eavesdrop: bool = False, max_zones: int | None = None, **kw):
    w = G.GwyWorld()
    cfg = {"disable_discovery": True, "enforce_known_list": False, "enable_eavesdrop": eavesdrop}
    if max_zones is not None:
        cfg["max_zones"] = max_zones
    gwy = w.add_gateway(config=cfg, **kw)
    return w, gwy


def entities(gwy) -> list:
    out = list(gwy.devices)
    for tcs in gwy.systems:
        out.append(tcs)
        out.extend(tcs.zones)
        if tcs.dhw:
            out.append(tcs.dhw)
    return out


VIEW_NAMES = ("schema", "params", "status", "traits")


def eval_views(gwy) -> list[tuple[str, str, str]]:
    """Evaluate every public view; -> [(where, exception type, message)] for those that raise."""
    bad = []
    for name in ("schema", "params", "status", "known_list", "_config"):
        try:
            getattr(gwy, name)
        except Exception as e:  # noqa: BLE001
            bad.append((f"gwy.{name}", type(e).__name__, _origin(e) + ": " + str(e)[:100]))
    for ent in entities(gwy):
        for name in VIEW_NAMES:
            try:
                getattr(ent, name)
            except Exception as e:  # noqa: BLE001
                bad.append((f"{type(ent).__name__}.{name}", type(e).__name__, _origin(e) + ": " + str(e)[:100]))
    return bad


def _origin(e: BaseException) -> str:
    tb = e.__traceback__
    last = ""
    while tb is not None:
        last = f"{tb.tb_frame.f_code.co_filename.rsplit('/', 1)[-1]}:{tb.tb_frame.f_code.co_name}"
        tb = tb.tb_next
    return last


def engine_ok(w: G.GwyWorld, gwy) -> list[str]:
    """Is the gateway still running (receiving, able to send)?"""
    bad = []
    if gwy._engine_state is not None:
        bad.append("engine still paused (_engine_state set)")
    if gwy._protocol._msg_handler is None:
        bad.append("protocol has no msg handler")
    if gwy._protocol._pause_writing:
        bad.append("protocol writing paused")
    if gwy._transport is not None and not gwy._transport.is_reading():
        bad.append("transport not reading")
    if gwy._disable_sending:
        bad.append("sending disabled")
    if gwy._engine_lock.locked():
        bad.append("engine lock held")
    return bad


# --- single edits -----------------------------------------------------------------------------------
MUTATIONS = [
    # (code, verb regex, payload regex, replacement function) - each keeps the payload inside its schema regex
    ("1F09", r" I|RP", r"^(..)(....)$", lambda m: [m.group(1) + "0000", m.group(1) + "FFFF", m.group(1) + "0001"]),
    ("30C9", r" I|RP", r"^(..)(....)(.*)$", lambda m: [m.group(1) + v + m.group(3) for v in ("7FFF", "7EFF", "8000", "0000")]),
    ("2309", r" I|RP| W", r"^(..)(....)(.*)$", lambda m: [m.group(1) + v + m.group(3) for v in ("7FFF", "7EFF", "8000")]),
    ("30C9", r" I|RP", r"^(0.)(....)(.*)$", lambda m: [i + m.group(2) + m.group(3) for i in ("0B", "0F")]),
    ("2309", r" I|RP", r"^(0.)(....)(.*)$", lambda m: [i + m.group(2) + m.group(3) for i in ("0B", "0F")]),
    ("3150", r" I", r"^(..)(..)(.*)$", lambda m: [m.group(1) + v + m.group(3) for v in ("C8", "FF", "EF", "00")]),
    ("0008", r" I|RP", r"^(..)(..)$", lambda m: [m.group(1) + v for v in ("C8", "FF", "EF")]),
    ("3EF0", r" I|RP", r"^(..)(..)(.*)$", lambda m: [m.group(1) + v + m.group(3) for v in ("C8", "FF", "EF")]),
    ("000C", r"RP", r"^(......)(......)(.*)$", lambda m: [m.group(1) + "FFFFFF" + m.group(3), m.group(1)[:4] + "7F" + "FFFFFF" + m.group(3)]),
    # the device named is of the older radiator-valve type 00: / a digital thermostat 22: / a HCW82 03: (same serial number)
    ("000C", r"RP", r"^(......)(..)(....)(.*)$", lambda m: [m.group(1) + t + m.group(3) + m.group(4) for t in ("00", "58", "0C")]),
    ("0418", r" I|RP", r"^(.{18})(.{12})(.*)$", lambda m: ["000000B0000000000000000000007FFFFF7000000000"]),
    ("313F", r" I|RP", r"^(.{6})(..)(..)(....)$", lambda m: [m.group(1) + "1D0207E8"]),
    ("10A0", r" I|RP", r"^(..)(....)(.*)$", lambda m: [m.group(1) + v + m.group(3) for v in ("7FFF", "0000")]),
    ("1260", r" I|RP", r"^(..)(....)$", lambda m: [m.group(1) + v for v in ("7FFF", "0000")]),
    ("12B0", r" I|RP", r"^(..)(....)$", lambda m: [m.group(1) + v for v in ("C800", "0000", "FFFF")]),
    ("2349", r" I|RP", r"^(..)(....)(..)(.*)$", lambda m: [m.group(1) + "7FFF" + m.group(3) + m.group(4), m.group(1) + m.group(2) + "04" + m.group(4)]),
    ("0005", r"RP| I", r"^(....)(....)$", lambda m: [m.group(1) + "FFFF", m.group(1) + "0000"]),
    ("1FC9", r" I", r"^(.*)$", lambda m: ["00", "21"]),
    ("0004", r" I|RP", r"^(....)(.{40})$", lambda m: [m.group(1) + "7F" * 20, m.group(1) + "00" * 20]),  # the 'no name' reply; an empty name
    ("3220", r"RP", r"^(..)(..)(..)(....)$", lambda m: [m.group(1) + m.group(2) + m.group(3) + v for v in ("FFFF", "0000", "7FFF")]),
]


def field_mutations(frame: str) -> list[str]:
    """Extreme-value rewrites of one frame that stay inside the code's payload regex."""
    from ramses_tx.ramses import CODES_SCHEMA

    f = frame.split(" ")
    verb, code, pl = frame[:2], f[-3], f[-1]
    out = []
    rx = CODES_SCHEMA.get(code, {}).get(verb)
    if not rx:
        return out
    for c, vre, pre, fn in MUTATIONS:
        if c != code or not re.fullmatch(vre, verb):
            continue
        m = re.match(pre, pl)
        if not m:
            continue
        for new in fn(m):
            if new != pl and re.match(rx, new):
                head = frame[: frame.rfind(" ")]
                g = head[: head.rfind(" ") + 1] + f"{len(new) // 2:03d} " + new
                if g not in out:
                    out.append(g)
    return out


IDX_POOL = ("00", "01", "0B", "F9", "FA", "FC")


def index_mutations(frame: str) -> list[str]:
    """The same frame with its leading zone / domain index replaced (kept only where the code's payload regex still accepts it):
    e.g. a controller's 3150 for FC re-addressed to zone 00, a 0008 for F9 re-addressed to FA."""
    from ramses_tx.ramses import CODES_SCHEMA

    f = frame.split(" ")
    verb, code, pl = frame[:2], f[-3], f[-1]
    rx = CODES_SCHEMA.get(code, {}).get(verb)
    if not rx or pl[:2] not in IDX_POOL + ("02", "03", "04", "05", "06", "07", "08", "09", "0A", "FB", "FD"):
        return []
    out = []
    for i in IDX_POOL:
        new = i + pl[2:]
        if i != pl[:2] and re.match(rx, new):
            head = frame[: frame.rfind(" ")]
            out.append(head + " " + new)
    return out


ROLES_000C = ("00", "04", "08", "0A", "0B", "0D", "0E", "0F", "11")


def contradictions(frame: str) -> list[str]:
    """Statements that contradict an RP|000C (to be delivered AFTER it, the original staying in the history): the same device
    claimed for another zone / another role, and another device claimed for the same zone and role."""
    f = frame.split(" ")
    verb, code, pl = frame[:2], f[-3], f[-1]
    if code != "000C" or verb != "RP" or len(pl) != 12 or pl[4:6] == "7F":
        return []
    idx, role, dev = pl[:2], pl[2:4], pl[6:12]
    head = frame[: frame.rfind(" ")]
    out = []
    for i in ("00", "01", "02", "05"):
        if i != idx and role not in ("0D", "0E", "0F"):
            out.append(f"{head} {i}{role}00{dev}")
    for r in ROLES_000C:
        if r != role:
            out.append(f"{head} {'00' if r in ('0D', '0E', '0F') else idx}{r}00{dev}")
    if role == "0E":  # the hot-water valve also claimed as the heating valve (and vice versa)
        out.append(f"{head} {'01' if idx == '00' else '00'}0E00{dev}")
    other = f"{(int(dev, 16) + 1) & 0xFFFFFF:06X}"
    out.append(f"{head} {idx}{role}00{other}")  # a different device of the same type
    out.append(f"{head} {idx}{role}0088{int(dev, 16) & 0xFFFF:04X}")  # a round thermostat (34:) instead
    return [g for g in dict.fromkeys(out) if g != frame]


ELEMENT_LEN = {"0009": 6, "000A": 12, "2309": 6, "30C9": 6, "2249": 14, "22C9": 12, "3150": 4}


def array_extensions(frame: str) -> list[str]:
    """A single-element payload of an array-capable code grown into a two-element array whose second element carries another
    zone / domain index (kept where the code's payload regex still accepts it): e.g. a controller's 3150 for FC plus zone 00."""
    from ramses_tx.ramses import CODES_SCHEMA

    f = frame.split(" ")
    verb, code, pl = frame[:2], f[-3], f[-1]
    L = ELEMENT_LEN.get(code)
    rx = CODES_SCHEMA.get(code, {}).get(verb)
    if not L or not rx or len(pl) != L or verb != " I":
        return []
    out = []
    head = frame[: frame.rfind(" ")]
    head = head[: head.rfind(" ") + 1]
    for i in ("00", "01", "FC", "FA"):
        if i != pl[:2]:
            new = pl + i + pl[2:]
            if re.match(rx, new):
                out.append(f"{head}{len(new) // 2:03d} {new}")
    return out


def single_edits(lines: list, splice_from: list[list] | None = None, fields: bool = True):
    """Yield (label, position of the edit, history) for every single edit of a history."""
    n = len(lines)
    kinds_seen: set = set()
    for i in range(n):
        if fields:  # contradicting statements about who belongs where, inserted after the original one
            d0, r0, fr0 = lines[i]
            cs = contradictions(fr0)
            for k, g in enumerate(cs):
                yield f"contra@{i}.{k}", i + 1, lines[: i + 1] + restamp([(d0, r0, g)], lines, i + 1) + lines[i + 1 :]
            # ... and the same with the controller first answering 'no device has this role' (an empty reply is not an un-binding: the
            # device that held the role is still there): the other device of the same type / a thermostat for the same role
            ff0 = fr0.split(" ")
            if cs and len(ff0[-1]) == 12:
                empty = f"{fr0[: fr0.rfind(' ')]} {ff0[-1][:4]}7FFFFFFF"
                for k, g in enumerate(cs[-2:]):
                    yield f"contra-after-empty@{i}.{k}", i + 1, lines[: i + 1] + restamp([(d0, r0, empty), (d0, r0, g)], lines, i + 1) + lines[i + 1 :]
        if fields:  # index re-addressing: at the first occurrence of every (verb, code, sender type, index class) of the history
            d, r, fr = lines[i]
            ff = fr.split()
            kind = (fr[:2], ff[-3], ff[-6][:2] if ff[-6] != "--:------" else ff[-4][:2], ff[-1][:1])
            if kind not in kinds_seen:
                kinds_seen.add(kind)
                for k, g in enumerate(index_mutations(fr)):
                    yield f"idx@{i}.{k}", i, lines[:i] + [(d, r, g)] + lines[i + 1 :]
                for k, g in enumerate(array_extensions(fr)):
                    yield f"arr@{i}.{k}", i, lines[:i] + [(d, r, g)] + lines[i + 1 :]
        yield f"del@{i}", i, lines[:i] + lines[i + 1 :]
        yield f"dup@{i}", i, lines[: i + 1] + [lines[i]] + lines[i + 1 :]
        if i + 1 < n:
            yield f"swap@{i}", i, lines[:i] + [lines[i + 1], lines[i]] + lines[i + 2 :]
        if fields:
            d, r, fr = lines[i]
            for k, g in enumerate(field_mutations(fr)):
                yield f"mut@{i}.{k}", i, lines[:i] + [(d, r, g)] + lines[i + 1 :]
    if fields:
        yield from role_claims(lines)
    for si, other in enumerate(splice_from or []):
        dig = digest(other)
        for i in range(0, n + 1):
            # the neighbour's packets arrive now (not at their recorded date): stamp them just after line i-1
            yield f"splice{si}@{i}", i, lines[:i] + restamp(dig, lines, i) + lines[i:]
    if splice_from is not None:
        # a neighbour's array broadcast (same code, other zone/circuit indexes, other values) heard 20 ms before ours: the library
        # joins the halves of a long array when they are consecutive - never arrays of two different senders
        for i in range(n):
            d, r, fr = lines[i]
            ff = fr.split()
            if fr[:2] == " I" and ff[-3] in ("000A", "22C9", "2309", "30C9") and len(ff[-1]) >= 12 and ff[2] == ff[4]:
                L = {"000A": 12, "22C9": 12, "2309": 6, "30C9": 6}[ff[-3]]
                pl = ff[-1]
                if len(pl) % L:
                    continue
                shifted = "".join(f"{(int(pl[k:k + 2], 16) + 2) % 12:02X}" + pl[k + 2 : k + L] for k in range(0, len(pl), L))
                nb = neighbour((d, r, fr[: fr.rfind(" ") + 1] + shifted))
                t0 = dt.fromisoformat(d) - td(milliseconds=20)
                yield f"nbarray@{i}", i, lines[:i] + [(t0.isoformat(timespec="microseconds"), r, nb[2])] + lines[i:]
        for i in range(0, n + 1):
            # (packets that carry device ids inside the payload would name OUR devices: leave those out of the clone)
            seg = [neighbour(x) for x in lines[max(0, i - 20) : i + 20] if x[2].split()[-3] not in ("000C", "1FC9", "0418", "0016", "1FD4")]
            yield f"clone@{i}", i, lines[:i] + restamp(seg, lines, i) + lines[i:]


def role_claims(lines: list):
    """First claims: just before a device is first heard (as a sender), the history's controller tells the gateway (RP|000C) that
    the device has a given role - every role of ROLES_000C, for a zone of its own (07) or the role's fixed index: each device class
    of the history gets to be sensor / actuator / valve / relay of a zone, the hot water or the heating appliance."""
    ctl = next((x for _d, _r, fr in lines for x in fr.split()[2:5] if x[:3] == "01:"), None)
    if ctl is None:
        return
    seen: set = set()
    for i, (d, r, fr) in enumerate(lines):
        src = fr.split()[2]
        if src in seen or src[:2] in ("01", "18", "63", "--"):
            continue
        seen.add(src)
        t, n = src.split(":")
        hx = f"{(int(t) << 18) | int(n):06X}"
        # (before it is first MENTIONED: as a sender, an addressee, or by id inside a payload - e.g. the controller's own RP|000C)
        i = next(k for k, (_d, _r, g) in enumerate(lines) if src in g or hx in g.split()[-1])
        d, r = lines[i][0], lines[i][1]
        for role in ROLES_000C:
            idx = {"0D": "00", "0E": "00", "0F": "00"}.get(role, "07")
            g = f"RP --- {ctl} 18:000730 --:------ 000C 006 {idx}{role}00{hx}"
            yield f"claim@{i}.{role}.{t}", i + 1, lines[:i] + restamp([(d, r, g)], lines, i) + lines[i:]


def restamp(seg: list, lines: list, i: int) -> list:
    t0 = dt.fromisoformat(lines[i - 1][0] if i else lines[0][0])
    return [((t0 + td(milliseconds=20 * (k + 1))).isoformat(timespec="microseconds"), r, fr) for k, (_d, r, fr) in enumerate(seg)]


def digest(other: list, limit: int = 45) -> list:
    """The first 15 lines of another system's log + the first occurrence of every further (verb, code, sender type)."""
    out = list(other[:15])
    seen = {(fr[:2], fr.split()[-3], fr.split()[-6][:2]) for _d, _r, fr in out}
    for ln in other[15:]:
        k = (ln[2][:2], ln[2].split()[-3], ln[2].split()[-6][:2])
        if k not in seen:
            seen.add(k)
            out.append(ln)
            if len(out) >= limit:
                break
    return out


_ID = re.compile(r"\b(\d\d):(\d{6})\b")


def neighbour(line: tuple) -> tuple:
    """The same packet as sent in a neighbour's identical installation: every device id moved by +1000, and an
    extreme-value field mutation applied where one exists (so that leaked state would show)."""
    d, r, fr = line
    g = _ID.sub(lambda m: m.group(0) if m.group(0) in ("63:262142", "18:000730") else f"{m.group(1)}:{(int(m.group(2)) + 1000) % 262142:06d}", fr)
    muts = field_mutations(g)
    if muts and g.split()[-3] not in ("000C", "0005", "1FC9", "0418", "313F"):
        g = muts[0]
    return d, r, g


def retime(lines: list) -> list:
    """Give a spliced/reordered history non-decreasing, unique timestamps (keeps each line's own gaps where it can)."""
    out = []
    last = None
    for d, r, fr in lines:
        t = dt.fromisoformat(d)
        if last is not None and t <= last:
            from datetime import timedelta as td

            t = last + td(milliseconds=20)
        last = t
        out.append((t.isoformat(timespec="microseconds"), r, fr))
    return out
