"""C07 - every send completes in bounded time with the right packet or a protocol error (E1)."""

from __future__ import annotations

from checks import qos_common as QC
from checks.qos_common import ENV, FAULT, caller

PROPERTY = "C07"
LEVEL = "model_checking"

TIMEOUTS_Q = [0.25, 0.4999, 0.5, 0.5001, 1.4999, 1.5001, 3.5001, 7.5001, 20.0, 30.0]
TIMEOUTS_T = [0.25, 0.4999, 0.5, 0.5001, 1.0, 1.4999, 1.5, 1.5001, 3.4999, 3.5, 3.5001, 7.4999, 7.5, 7.5001, 19.9999, 20.0, 30.0]


def scenarios(quick: bool) -> list[tuple[dict, int]]:
    sc: list[tuple[dict, int]] = []
    alld = ENV + FAULT
    # full QoS product, one caller
    for mode in (None, False, True):
        for wfr in (None, False, True):
            for retries in (0, 1, 3, 5):
                for to in TIMEOUTS_Q if quick else TIMEOUTS_T:
                    p = {"qos_mode": mode, "callers": [caller("rq30c9_01", wfr=wfr, retries=retries, timeout=to)], "dev": alld + ("foreign",)}
                    sc.append((p, 1))
    # one caller, deeper, for each kind of command
    for cmd in ("rq30c9_01", "w2309_01", "i30c9_fake", "rq3220_05", "rq0418_00"):
        for to in (0.5001, 1.5001, 20.0):
            for wfr in (True, False):
                p = {"qos_mode": False, "callers": [caller(cmd, wfr=wfr, timeout=to)], "dev": alld + ("foreign",)}
                sc.append((p, 2))
    # concurrent callers: equal headers, near-equal headers, mixed priorities, late caller
    pairs = [
        ("rq30c9_01", "rq30c9_01"),  # equal headers (two Command objects)
        ("rq30c9_01", "rq30c9_02"),  # differ in context only
        ("rq30c9_01", "w2309_01"),
        ("rq3220_05", "rq3220_11"),
    ]
    for a, b in pairs:
        for pa, pb in (("DEFAULT", "DEFAULT"), ("LOW", "HIGH")):
            for to in (0.5001, 20.0):
                p = {
                    "qos_mode": False,
                    "callers": [caller(a, prio=pa, timeout=to), caller(b, prio=pb, timeout=20.0)],
                    "dev": ENV + ("wfail", "disc", "call", "foreign"),
                }
                sc.append((p, 1 if quick else 2))
                p = {
                    "qos_mode": False,
                    "callers": [caller(a, prio=pa, timeout=to), caller(b, prio=pb, timeout=to, start="q")],
                    "dev": ENV + ("call", "foreign"),
                }
                sc.append((p, 1 if quick else 2))
    # one Command object handed to send_cmd twice (an application polling with a stored command), the copies overlapping
    for to_a, to_b in ((20.0, 0.25), (0.5001, 20.0), (20.0, 20.0), (1.5001, 0.25)):
        for start in ("t0", "q"):
            p = {
                "qos_mode": False,
                "callers": [caller("rq30c9_01", timeout=to_a), caller("rq30c9_01", same_as=0, timeout=to_b, start=start)],
                "dev": ENV + ("call",),
            }
            sc.append((p, 1 if quick else 2))
    for prios in (("DEFAULT", "DEFAULT", "DEFAULT"), ("LOW", "DEFAULT", "HIGH"), ("HIGH", "LOW", "HIGH")):
        p = {
            "qos_mode": False,
            "callers": [caller(f"rq30c9_0{i+1}", prio=pr, timeout=to) for i, (pr, to) in enumerate(zip(prios, (0.5001, 20.0, 1.5001)))],
            "dev": ENV + ("call",),
        }
        sc.append((p, 1 if quick else 2))
    # nothing ever comes back: the 20 s cap must hold for any timeout, also for a caller queued behind another
    for tos in ((30.0,), (20.0, 30.0), (30.0, 30.0), (7.5001, 30.0), (30.0, 30.0, 30.0)):
        for mode in (False, None):
            p = {
                "qos_mode": mode,
                "callers": [caller(f"rq30c9_0{i+1}", timeout=to) for i, to in enumerate(tos)],
                "env": {"echo": False, "reply": False},
                "dev": ("call", "disc"),
            }
            sc.append((p, 1))
    # the connection is lost with the error object a serial transport reports / with a clean close
    for err in ("serial", None):
        for cmd in ("rq30c9_01", "w2309_01", "i30c9_fake"):
            for to in (0.5001, 20.0):
                p = {"qos_mode": False, "callers": [caller(cmd, timeout=to), caller("rq30c9_02", timeout=to)], "dev": ("disc", "drop", "late"), "disc_err": err}
                sc.append((p, 2))
    # writing is paused when the call is made (an MQTT gateway that is offline), and may be resumed at any later moment
    for to in (0.25, 0.5001, 1.5001, 20.0):
        for n in (1, 2):
            p = {"qos_mode": False, "paused_at_start": True, "callers": [caller(f"rq30c9_0{i + 1}", timeout=to) for i in range(n)], "dev": ("pause", "drop", "late", "call")}
            sc.append((p, 2))
    # one QosParams object handed to send_cmd for several commands (an application keeping its 'await the reply' settings): what the
    # gateway's QoS mode does for one command must not change what the next one gets
    for mode in (None, False, True):
        for first in ("rq30c9_01", "w2309_01", "rq0418_00"):
            for start in ("t0", "q"):
                p = {
                    "qos_mode": mode,
                    "callers": [caller(first, wfr=True, timeout=20.0), caller("rq0418_00" if first != "rq0418_00" else "rq30c9_02", wfr=True, timeout=20.0, qos_of=0, start=start)],
                    "dev": ("drop", "call"),
                }
                sc.append((p, 1))
    # the wall clock the queue stamps its entries with: 1 ms resolution (callers in the same millisecond read the same time) / set back
    # by an hour after the first caller (end of DST for naive local time, NTP) - each send must still end with a packet or a ProtocolError
    for wc in ("coarse", "stepback"):
        for prios in (("DEFAULT", "DEFAULT"), ("DEFAULT", "DEFAULT", "DEFAULT"), ("LOW", "HIGH", "LOW"), ("HIGH", "HIGH", "DEFAULT")):
            for start in ("t0", "q"):
                p = {
                    "qos_mode": False,
                    "wallclock": wc,
                    "callers": [caller(f"rq30c9_0{i+1}", prio=pr, timeout=20.0, start="t0" if i == 0 else start) for i, pr in enumerate(prios)],
                    "dev": ("drop", "call"),
                }
                sc.append((p, 1))
    if not quick:
        for to in (0.5001, 1.5001, 20.0):
            for wfr in (True, False):
                sc.append(({"qos_mode": False, "callers": [caller("rq30c9_01", wfr=wfr, timeout=to)], "dev": alld + ("foreign",)}, 3))
    return sc


def bfs_scenarios(quick: bool) -> list[dict]:
    """State-hashing runs (explicit-state BFS over the real world): ANY number of the listed deviation kinds, every caller judged on
    the transition on which it ends and at every quiescent state."""
    sc = []
    soft = ("drop", "dup")
    for cmd, tos in (("rq30c9_01", (0.5001, 1.5001, 20.0)), ("w2309_01", (20.0,)), ("rq0418_00", (20.0,)), ("i30c9_fake", (20.0,)), ("rq3220_05", (20.0,) if not quick else ())):
        for to in tos:
            for wfr in (True, False) if (cmd == "rq30c9_01" and to == 20.0) or not quick else (True,):
                sc.append({"qos_mode": False, "flat": True, "callers": [caller(cmd, wfr=wfr, timeout=to)], "dev": soft})
    # third parties' packets with equal / near-equal headers, one kind at a time (any number of them, at any point, among losses)
    for kind in ("echo_other_gwy", "rply_other_dst", "rply_other_ctx", "rply_other_src"):
        for cmd in ("rq30c9_01", "rq0418_00") if kind == "rply_other_ctx" or not quick else ("rq30c9_01",):
            sc.append({"qos_mode": False, "flat": True, "callers": [caller(cmd, wfr=(kind != "echo_other_gwy"), timeout=20.0)], "dev": ("drop", "foreign"), "foreign_kinds": [kind]})
    # gateway QoS modes: replies not awaited / QoS disabled
    for mode in (None, True):
        sc.append({"qos_mode": mode, "flat": True, "callers": [caller("rq30c9_01", timeout=20.0)], "dev": soft})
    # a reply or echo held in the air while timers fire (late), also across two commands whose headers differ in context only:
    # the late reply of the first must not be given to the second
    sc.append({"qos_mode": False, "flat": True, "max_held": 1, "callers": [caller("rq30c9_01", timeout=20.0)], "dev": ("drop", "late") if quick else ("drop", "dup", "late")})
    sc.append({"qos_mode": False, "flat": True, "max_held": 1, "callers": [caller("rq30c9_01", timeout=0.5001), caller("rq30c9_02", timeout=20.0)], "dev": ("drop", "late")})
    sc.append({"qos_mode": False, "flat": True, "callers": [caller("rq30c9_01", timeout=1.5001), caller("rq30c9_01", timeout=20.0)], "dev": ("drop",)})
    # faults of the link itself
    sc.append({"qos_mode": False, "flat": True, "callers": [caller("rq30c9_01", timeout=20.0), caller("w2309_02", timeout=1.5001)], "dev": ("drop", "wfail", "disc")})
    if not quick:
        sc.append({"qos_mode": False, "flat": True, "max_held": 2, "callers": [caller("rq30c9_01", timeout=20.0)], "dev": ("drop", "dup", "late")})
        sc.append({"qos_mode": False, "flat": True, "callers": [caller("rq30c9_01", timeout=20.0), caller("rq30c9_01", timeout=20.0)], "dev": ("drop", "dup")})
        sc.append({"qos_mode": False, "flat": True, "callers": [caller("rq30c9_01", timeout=20.0)], "dev": ("drop", "foreign"), "foreign_kinds": ["echo_other_gwy", "rply_other_ctx"]})
        sc.append({"qos_mode": False, "flat": True, "max_held": 1, "callers": [caller("rq30c9_01", timeout=1.5001), caller("rq30c9_02", timeout=20.0)], "dev": ("drop", "dup", "late")})
        sc.append({"qos_mode": False, "flat": True, "max_held": 1, "callers": [caller("rq3220_05", timeout=20.0), caller("rq3220_11", timeout=20.0)], "dev": ("drop", "dup", "late")})
        sc.append({"qos_mode": False, "flat": True, "callers": [caller("rq30c9_01", timeout=20.0), caller("w2309_01", timeout=20.0, prio="HIGH"), caller("rq30c9_02", timeout=0.5001, prio="LOW")], "dev": ("drop", "disc")})
        sc.append({"qos_mode": False, "flat": True, "callers": [caller("rq30c9_01", timeout=20.0), caller("rq30c9_01", same_as=0, timeout=20.0, start="q")], "dev": ("drop", "dup", "call")})
        sc.append({"qos_mode": False, "flat": True, "callers": [caller("i30c9_fake", timeout=20.0), caller("rq30c9_02", timeout=20.0)], "dev": ("drop", "dup", "wfail")})
    return sc


def run(ctx) -> None:
    sc = scenarios(ctx.quick)
    total, byD = QC.drive(ctx, PROPERTY, sc)
    btot, bviol, bper, bout, audits, bad = QC.bfs(ctx, PROPERTY, bfs_scenarios(ctx.quick))
    for k, v in sorted(bviol.items()):
        ctx.vcount[k] = ctx.vcount.get(k, 0) + v["count"]
        ctx.violation(k, v["what"], v["replay"])
    ctx.nviol_total = getattr(ctx, "nviol_total", 0) + sum(v["count"] for v in bviol.values())
    ctx.coverage.update(
        states=total.nodes + btot["states"],
        transitions=max(1, total.nodes - len(sc)) + btot["transitions"],
        traces_validated_against_impl=total.executions + btot["transitions"],
        state_hashing={"scenarios": bper, "states": btot["states"], "transitions": btot["transitions"], "terminal_states": btot["terminal"], "distinct_terminal_outcomes": bout, "merge_audits": audits, "merge_audits_failed": bad, "scenarios_capped": btot["capped"]},
        executions=total.executions,
        scenarios=len(sc),
        executions_by_deviation_bound={str(k): v for k, v in sorted(byD.items())},
        deviation_bound_completed=max(d for _, d in sc),
        max_depth=total.max_depth,
        distinct_outcomes=len(total.outcomes),
        deviations_taken=dict(total.actions),
        determinism_audits=total.audited,
        caps_hit=btot["capped"],
        exhaustive=True,
        samples=total.samples[:3],
        rule="QoS product (gateway mode x wait_for_reply x max_retries x timeout around every library timer) x every schedule with "
        "deviation cost <= D (loss, dup, reorder, late, just-before-timer, coincident timers, failed write, disconnect, pause, "
        "foreign near-equal packets, late callers); states = distinct schedule prefixes; each trace is a real execution. "
        "state_hashing: explicit-state BFS with state hashing over the same real world (canonical form incl. each caller's elapsed time) - every "
        "schedule with ANY number of the deviation kinds listed per scenario; each caller judged on the transition on which it ends and at quiescence",
    )
    ctx.assumptions += [
        "loop lateness <= 1 ms; caller time-outs taken from {T-eps, T, T+eps} for each library timer T",
        "a reply is generated only by the addressed (scripted) device; foreign packets differ in exactly one header field",
    ]


def replay(rep: dict):
    if rep.get("world") == "qos-bfs":
        return QC.bfs_replay(PROPERTY, rep)
    return QC.replay(PROPERTY, rep)
