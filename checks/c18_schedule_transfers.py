"""C18 - schedule transfers end cleanly under faults and never return a mixed schedule.

E1: deviation-bounded exhaustive exploration of the real Gateway / Schedule / ScheduleSync / QoS code on the
virtual loop against a scripted controller (mc.ctlsim.SchedCtl, the reference model: per-zone version history
and change counter).  Every nondeterministic choice goes through the Chooser:

  * at every transmission: its fate  {ok, echo only (reply lost), nothing (transmission lost), reply twice,
    reply late (after the retransmission timer), reply very late (3 s: after the transfer)};
  * at the first transmission of every command (= between any two exchanges): an environment event
    {none, the controller's schedule for this / another zone changes (same or other fragment count),
     a fragment for this / another zone is overheard (reply to a third party), the caller abandons (cancel)}.

Scenario parameters (enumerated completely, not chosen by the scheduler): which transfers run (get / set, zones
01 02 HW, force_io), whether the zone already holds a cached schedule, fragment counts 1..3, the callers' overall
time-out (just before / after each exchange boundary of the fault-free run, and the default 15 s), and at which
exchange a second / third concurrent transfer starts.
"""

from __future__ import annotations

import asyncio
import gc
import json
import multiprocessing as mp

from mc import ctlsim as S
from mc import explore as X
from mc import gwyworld as G
from mc import logcap
from mc.explore import Chooser
from mc.qosworld import CheckedLock, DeadlockError

PROPERTY = "C18"
LEVEL = "model_checking"

CTL = S.CTL
THIRD = "30:111111"
HORIZON = 240.0
ZONES_ALL = ("01", "02", "HW")


def _schema(zones) -> dict:
    sch: dict = {"main_tcs": CTL, CTL: {"zones": {}}}
    for z in zones:
        if z == "HW":
            sch[CTL]["stored_hotwater"] = {"sensor": "07:017494"}
        else:
            sch[CTL]["zones"][z] = {"sensor": f"34:0640{int(z, 16):02d}"}
    return sch


class SchedWorld:
    def __init__(self, params: dict, prefix=(), expect=None) -> None:
        self.params = params
        self.ch = Chooser(prefix, expect)
        self.dev = set(params.get("dev", ("fate", "bump", "overhear", "cancel")))
        self.cmd_fate: dict[str, str] = {}
        self.w = G.GwyWorld()
        L = G.lib()
        import ramses_rf.system.heat as H

        self._H = H
        self._real_lock = H.Lock
        CheckedLock.instances.clear()
        H.Lock = CheckedLock
        self.loop = self.w.loop
        sizes = params.get("sizes", {"01": 3, "02": 1, "HW": 2})
        self.sizes = dict(sizes)
        self.zones = [z for z in ZONES_ALL if z in sizes]
        self.gwy = self.w.add_gateway(config={"disable_discovery": True, "enforce_known_list": False}, **_schema(self.zones))
        self.tcs = self.gwy.tcs
        self.ctl = S.SchedCtl({z: (None if sizes[z] == 0 else S.schedule_for(z, 0, sizes[z])) for z in self.zones})
        self.nver = {z: 0 for z in self.zones}  # version tags handed out so far (for make_schedule)
        self.w.on_write = self._on_write
        self.faults = True
        self.writes: list[tuple] = []
        self.seen_frames: set[str] = set()
        self.newcmds = 0
        self.callers: list[dict | None] = [None] * len(params["callers"])
        self.deadlock: str | None = None
        self.exc = L["exc"]
        self.ev = 0  # harness event counter (orders calls, version changes, counter reads)
        self.verlog: list[tuple] = []  # (ev, zone, version index)
        self.crlog: list[tuple] = []  # (ev, {zone: version index}) at every answered counter read

    # ------------------------------------------------------------------------------------------ helpers
    def zone(self, z: str):
        return self.tcs.dhw if z == "HW" else self.tcs.zone_by_idx[z]

    def tick(self) -> int:
        self.ev += 1
        return self.ev

    def _deliver(self, frame: str) -> None:
        if self.loop.dead:
            return
        self.w.rx(frame, settle=False)

    def do_bump(self, zone: str, size: int) -> None:
        self.nver[zone] += 1
        self.ctl.bump(zone, S.schedule_for(zone, self.nver[zone], size))
        self.verlog.append((self.tick(), zone, self.ctl.cur[zone]))

    # ------------------------------------------------------------------------------------------ environment
    def _env_menu(self) -> list:
        acts: list = [(("none",), 0)]
        if not self.faults:
            return acts
        if "bump" in self.dev:
            for z in self.zones:
                if self.sizes[z] == 0:
                    continue
                acts.append((("bump", z, self.sizes[z]), 1))
                if "bumpsize" in self.dev and not isinstance(self.sizes[z], str):
                    acts.append((("bump", z, 1 + self.sizes[z] % 3), 1))
        if "overhear" in self.dev:
            for z in self.zones:
                inner = self.ctl.current(z)
                n = 1 if inner is None else len(S.fragments(z, inner))
                for k in range(1, n + 1):
                    acts.append((("overhear", z, k), 1))
        if "cancel" in self.dev:
            for i, c in enumerate(self.callers):
                if c is not None and c["res"] is None and not c.get("cancelled"):
                    acts.append((("cancel", i), 1))
        return acts

    def _on_write(self, tx, frame: str) -> None:
        loop = self.loop
        self.writes.append((round(loop.time(), 4), frame))
        new = frame not in self.seen_frames
        f = frame.split()
        is_sched = f[5] in ("0404", "0006")
        if new and is_sched:
            self.seen_frames.add(frame)
            self.newcmds += 1
            # a staggered caller starts at the k-th exchange
            for i, c in enumerate(self.params["callers"]):
                if self.callers[i] is None and c.get("start", 0) == self.newcmds and self.faults:
                    self.start_caller(i)
            menu = self._env_menu()
            if len(menu) > 1:
                a = self.ch.choose(menu)
                if a[0] == "bump":
                    self.do_bump(a[1], a[2])
                elif a[0] == "overhear":
                    fr = self.ctl.frag_frame(a[1], a[2], THIRD)
                    if fr:
                        loop.call_later(0.002, self._deliver, fr)
                elif a[0] == "cancel":
                    c = self.callers[a[1]]
                    c["cancelled"] = True
                    loop.call_soon(c["task"].cancel)
        fate = "ok"
        if self.faults and frame in self.cmd_fate:  # a retransmission of a command whose every transmission / every reply is lost: no new choice
            fate = self.cmd_fate[frame]
        elif self.faults and is_sched and "fate" in self.dev:
            menu = [(("ok",), 0), (("lose_reply",), 1), (("lose_tx",), 1), (("dup_reply",), 1), (("late_reply",), 1), (("very_late_reply",), 1)]
            if new:  # the whole exchange fails whatever the QoS layer retransmits (one deviation: the device is out of reach for ~2 s)
                menu += [(("lose_cmd",), 1), (("lose_rps",), 1)]
            fate = self.ch.choose(menu)[0]
            if fate in ("lose_cmd", "lose_rps"):
                self.cmd_fate[frame] = fate = "lose_tx" if fate == "lose_cmd" else "lose_reply"
        if fate == "lose_tx":
            return
        loop.call_later(0.01, self._deliver, self.w.echo(tx, frame))
        before = dict(self.ctl.cur)
        rp = self.ctl.answer(frame, tx.gid)
        snap = dict(self.ctl.cur) if (f[5] == "0006" and rp) else None  # (a counter read counts from the moment its reply ARRIVES)
        for z, v in self.ctl.cur.items():
            if v != before[z]:
                self.verlog.append((self.tick(), z, v))
        if rp is None or fate == "lose_reply":
            return
        if fate == "late_reply":
            loop.call_later(0.6, self._deliver_rp, rp, snap)
            return
        if fate == "very_late_reply":  # a straggler: it arrives when the transfer (and perhaps the next one) is long over
            loop.call_later(3.0, self._deliver_rp, rp, snap)
            return
        loop.call_later(0.03, self._deliver_rp, rp, snap)
        if fate == "dup_reply":
            loop.call_later(0.034, self._deliver, rp)

    def _deliver_rp(self, rp: str, snap) -> None:
        if snap is not None:
            self.crlog.append((self.tick(), snap))
        self._deliver(rp)

    # ------------------------------------------------------------------------------------------ callers
    def start_caller(self, i: int) -> None:
        c = self.params["callers"][i]
        zone = self.zone(c["zone"])
        rec: dict = {"i": i, "op": c["op"], "zone": c["zone"], "start_ev": self.tick(), "start_t": self.loop.time(), "end_ev": None, "end_t": None, "res": None}
        rec["ver_at_start"] = self.ctl.cur[c["zone"]]
        self.callers[i] = rec
        if c["op"] == "get":
            kw = {"force_io": c.get("force_io", False)}
            if c.get("timeout") is not None:
                coro = zone._schedule.get_schedule(timeout=c["timeout"], **kw)
            else:
                coro = zone.get_schedule(**kw)
        else:
            self.nver[c["zone"]] += 1
            rec["written"] = S.schedule_for(c["zone"], 50 + self.nver[c["zone"]] + 7 * i, c.get("size", self.sizes[c["zone"]] or 1))
            coro = zone.set_schedule(rec["written"])

        async def caller() -> None:
            try:
                val = await coro
                rec["res"] = ("ok", val)
            except asyncio.CancelledError:
                rec["res"] = ("cancelled",)
            except BaseException as e:  # noqa: BLE001
                rec["res"] = ("exc", type(e).__name__, isinstance(e, (TimeoutError, self.exc.RamsesException)), str(e)[:100], G.lib()["exc"] and _origin(e))
            rec["end_ev"] = self.tick()
            rec["end_t"] = self.loop.time()
            rec["ver_at_end"] = self.ctl.cur[c["zone"]]

        rec["task"] = self.loop.create_task(caller())

    def run_quiet(self, coro, horizon: float):
        """Run one follow-up transfer with no faults and no choices."""
        res: dict = {}

        async def go() -> None:
            try:
                res["res"] = ("ok", await coro)
            except asyncio.CancelledError:
                res["res"] = ("cancelled",)
            except BaseException as e:  # noqa: BLE001
                res["res"] = ("exc", type(e).__name__, isinstance(e, (TimeoutError, self.exc.RamsesException)), str(e)[:100], _origin(e))

        t0 = self.loop.time()
        task = self.loop.create_task(go())
        self.loop.quiesce_until(lambda: task.done(), t0 + horizon)
        if not task.done():
            task.cancel()
            self.loop.settle()
            res["res"] = ("hang",)
        res["dur"] = round(self.loop.time() - t0, 3)
        return res

    # ------------------------------------------------------------------------------------------ one execution
    def execute(self) -> dict:
        p = self.params
        loop = self.loop
        obs: dict = {"deadlock": None}
        try:
            # warm-up: fault-free fetches, then optional changes at the controller, all before the transfers under test
            self.faults = False
            for z in p.get("warm", ()):
                r = self.run_quiet(self.zone(z).get_schedule(), 30)
                if r["res"][0] != "ok" or r["res"][1] != self.ctl.current(z):
                    obs.setdefault("warm_bad", []).append((z, r["res"][0], _brief(r["res"][1]) if r["res"][0] == "ok" else r["res"][1:4]))
            for z in p.get("pre_bump", ()):
                self.do_bump(z, self.sizes[z])
            if p.get("age"):
                loop.quiesce(loop.time() + p["age"])
            self.faults = True
            self.seen_frames.clear()
            self.cmd_fate.clear()
            self.newcmds = 0
            for i, c in enumerate(p["callers"]):
                if c.get("start", 0) == 0:
                    self.start_caller(i)
            t_end = loop.time() + HORIZON
            loop.quiesce_until(lambda: all(c is not None and c["res"] is not None for c in self.callers if c is not None) and all(c is not None for c in self.callers), t_end)
            # callers that were to start at an exchange that never happened: not started, not judged
            self.faults = False
            loop.quiesce(loop.time() + 5.0)
        except DeadlockError as e:
            obs["deadlock"] = str(e)
        obs["callers"] = [None if c is None else {k: v for k, v in c.items() if k != "task"} for c in self.callers]
        obs["lock_idx"] = self.tcs.zone_lock_idx
        obs["lock_held"] = self.tcs.zone_lock.locked()
        obs["writes"] = len(self.writes)
        obs["t_writes"] = [w[0] for w in self.writes]
        obs["ctl_cur"] = dict(self.ctl.cur)
        obs["followups"] = []
        if not obs["deadlock"]:
            try:
                order = self.zones[1:] + self.zones[:1] if len(self.zones) > 1 else list(self.zones)
                for z in order:
                    r = self.run_quiet(self.zone(z).get_schedule(force_io=True), 60)
                    r["zone"] = z
                    r["want"] = self.ctl.current(z)
                    r["lock_idx"] = self.tcs.zone_lock_idx
                    obs["followups"].append(r)
                z = p["callers"][0]["zone"]
                r = self.run_quiet(self.zone(z).get_schedule(), 60)  # cached path
                r["zone"] = z + "/cached"
                r["want"] = self.ctl.current(z)
                r["lock_idx"] = self.tcs.zone_lock_idx
                obs["followups"].append(r)
            except DeadlockError as e:
                obs["deadlock"] = str(e)
        obs["versions"] = {z: list(v) for z, v in self.ctl.versions.items()}
        obs["verlog"] = list(self.verlog)
        obs["crlog"] = list(self.crlog)
        obs["loop_exc"] = self.w.loop_exceptions()
        obs["log_exc"] = [r for r in logcap.CAP.records]
        obs["end_t"] = round(loop.time(), 3)
        self.close()
        return obs

    def close(self) -> None:
        self.w.close()
        self._H.Lock = self._real_lock


def _origin(e: BaseException) -> str:
    tb = e.__traceback__
    last = ""
    while tb is not None:
        last = f"{tb.tb_frame.f_code.co_filename.rsplit('/', 1)[-1]}:{tb.tb_frame.f_code.co_name}"
        tb = tb.tb_next
    return last


def run_world(params: dict, prefix=(), expect=None):
    w = SchedWorld(params, prefix, expect)
    try:
        obs = w.execute()
    except BaseException:
        try:
            w.close()
        except Exception:  # noqa: BLE001
            pass
        raise
    return w.ch, obs


# ---------------------------------------------------------------------------------------------------------
# the oracle, written from the statement


def _which(versions: dict, zone: str, val) -> int | None:
    for i, v in enumerate(versions[zone]):
        if v == val:
            return i
    return None


def _ver_at(verlog, zone: str, ev: int) -> int:
    v = 0
    for e, z, i in verlog:
        if z == zone and e <= ev:
            v = i
    return v


def oracle(obs: dict, params: dict) -> list[tuple[str, str]]:
    out: list[tuple[str, str]] = []
    if obs["deadlock"]:
        return [("C18:deadlock", f"blocking acquire of the schedule lock while it is held: {obs['deadlock']}")]
    versions = obs["versions"]
    for z, kind, val in obs.get("warm_bad", ()):
        out.append((f"C18:fault-free-fetch-wrong:{kind}", f"fault-free get_schedule(zone {z}) on a fresh gateway gave {kind} {val}, not the controller's schedule"))
    for c in obs["callers"]:
        if c is None:
            continue
        spec = params["callers"][c["i"]]
        tag = f"{c['op']}"
        r = c["res"]
        if r is None:
            out.append((f"C18:never-ends:{tag}", f"{c['op']}_schedule(zone {c['zone']}) had not ended {HORIZON:.0f} s after it began (lock owner {obs['lock_idx']})"))
            continue
        if r[0] == "exc" and not r[2]:
            out.append((f"C18:internal-error:{tag}:{r[1]}:{r[4]}", f"{c['op']}_schedule(zone {c['zone']}) raised {r[1]}: {r[3]} (from {r[4]})"))
        if r[0] == "ok" and c["op"] == "get":
            val = r[1]
            v = _which(versions, c["zone"], val)
            if v is None:
                other = [z for z in versions if z != c["zone"] and _which(versions, z, val) is not None]
                kind = "other-zone" if other else ("none" if val is None else "mixed-or-unknown")
                out.append((f"C18:get-returns-no-version:{kind}", f"get_schedule(zone {c['zone']}) returned {_brief(val)}, which is no version the controller ever held for that zone"))
            else:
                # not older than the version current at the later of (call start for a forced read | the last counter read before the call ended)
                lo = c["ver_at_start"]
                if not spec.get("force_io"):
                    reads = [m for e, m in obs["crlog"] if e <= c["end_ev"]]
                    lo = min(lo, reads[-1][c["zone"]]) if reads else 0
                hi = c["ver_at_end"]
                if not lo <= v <= hi:
                    out.append((f"C18:get-returns-stale:{'forced' if spec.get('force_io') else 'cached'}", f"get_schedule(zone {c['zone']}, force_io={spec.get('force_io', False)}) returned version {v}; versions current during the transfer were {lo}..{hi}"))
        if r[0] == "ok" and c["op"] == "set":
            if r[1] != c["written"]:
                out.append(("C18:set-returns-other", f"set_schedule(zone {c['zone']}) returned {_brief(r[1])}, not what was written"))
            if _which(versions, c["zone"], c["written"]) is None:
                out.append(("C18:set-ok-but-not-stored", f"set_schedule(zone {c['zone']}) reported success but the controller never held that schedule"))
    if obs["lock_idx"] is not None or obs["lock_held"]:
        out.append(("C18:lock-left-behind", f"all transfers had ended 5 s before, yet the schedule lock is owned by zone {obs['lock_idx']} (held={obs['lock_held']})"))
    for fu in obs["followups"]:
        r = fu["res"]
        cached = fu["zone"].endswith("/cached")
        z = fu["zone"].split("/")[0]
        if fu["want"] is None and r[0] == "exc" and r[2]:
            pass  # a zone that has no schedule: "no schedule" or a reported error are both acceptable answers
        elif r[0] != "ok":
            out.append((f"C18:follow-up-fails:{'cached' if cached else 'forced'}:{r[0]}:{r[1] if len(r) > 1 else ''}", f"fault-free get_schedule(zone {fu['zone']}) after the episode: {r[:4]} after {fu['dur']} s"))
        elif not cached and r[1] != fu["want"]:
            v = _which(versions, z, r[1])
            why = _stale_cause(obs, z) if v is not None else "no-version"
            out.append((f"C18:follow-up-wrong:{'stale:' + why if v is not None else 'no-version'}", f"fault-free forced get_schedule(zone {z}) after the episode returned {'version ' + str(v) if v is not None else _brief(r[1])}, controller holds version {obs['ctl_cur'][z]}"))
        elif cached and r[1] is not None and _which(versions, z, r[1]) is None:
            out.append(("C18:follow-up-wrong:no-version", f"get_schedule(zone {z}) after the episode returned {_brief(r[1])}: no version of that zone"))
        if fu["lock_idx"] is not None:
            out.append(("C18:lock-left-behind:follow-up", f"lock owned by {fu['lock_idx']} after a fault-free follow-up"))
    for e in obs["loop_exc"]:
        out.append((f"C18:loop-exception:{e[0]}:{e[2]}", f"unhandled in the event loop: {e}"))
    for r in obs["log_exc"]:
        if r[1] in ("AssertionError", "KeyError", "IndexError", "TypeError", "AttributeError"):
            out.append((f"C18:logged-exception:{r[1]}:{r[3]}", f"exception logged by the library: {r}"))
    return out


def _stale_cause(obs: dict, zone: str) -> str:
    """Why might a forced fetch return an older version? Name the one protocol-level race we know of: a successful
    set_schedule for that zone whose closing counter read came after somebody else's change of the same zone."""
    for c in obs["callers"]:
        if c is None or c["op"] != "set" or c["zone"] != zone or not c["res"] or c["res"][0] != "ok":
            continue
        mine = _which(obs["versions"], zone, c["written"])
        stored = [e for e, z, i in obs["verlog"] if z == zone and i == mine]
        later = [e for e, z, i in obs["verlog"] if z == zone and mine is not None and i > mine and e < c["end_ev"]]
        if stored and later:
            return "set-then-changed-at-controller-before-the-closing-counter-read"
    return "other"


def _brief(v) -> str:
    s = json.dumps(v, default=str)
    return s if len(s) < 90 else s[:86] + "...]"


def outcome_digest(obs: dict) -> str:
    return X.digest(
        {
            "c": [None if c is None else (c["res"] and c["res"][:3] if c["res"] and c["res"][0] != "ok" else ("ok", X.digest(c["res"][1]) if c["res"] else None), c["end_t"] and round(c["end_t"], 3)) for c in obs["callers"]],
            "l": obs["lock_idx"],
            "w": obs["t_writes"],
            "f": [(f["zone"], f["res"][0], f["dur"]) for f in obs["followups"]],
            "e": obs["loop_exc"],
            "v": obs["ctl_cur"],
        }
    )


# ---------------------------------------------------------------------------------------------------------
def get(zone, **kw):
    d = {"op": "get", "zone": zone, "force_io": False, "timeout": None, "start": 0}
    d.update(kw)
    return d


def put(zone, **kw):
    d = {"op": "set", "zone": zone, "start": 0}
    d.update(kw)
    return d


def boundaries(params: dict) -> list[float]:
    """Exchange boundaries (write times) of the scenario's fault-free run."""
    _, obs = run_world(dict(params, dev=()), (), None)
    return sorted(set(obs["t_writes"]))


def scenarios(quick: bool) -> list[tuple[dict, int]]:
    sc: list[tuple[dict, int]] = []
    full = ("fate", "bump", "overhear", "cancel")
    sizes = {"01": 3, "02": 1, "HW": 2}
    # 1. one fetch, cold; every deviation kind
    for force in (False, True):
        sc.append(({"callers": [get("01", force_io=force)], "sizes": sizes, "dev": full + ("bumpsize",)}, 2))
    sc.append(({"callers": [get("02")], "sizes": sizes, "dev": full}, 2))
    sc.append(({"callers": [get("HW")], "sizes": sizes, "dev": full}, 2))
    sc.append(({"callers": [get("01")], "sizes": {"01": 2, "02": 2}, "dev": full + ("bumpsize",)}, 2 if quick else 3))
    # 2. the caller's overall time-out expiring around every exchange boundary
    base = {"callers": [get("01", force_io=True)], "sizes": sizes}
    for t in boundaries(base):
        for eps in (-0.001, 0.001):
            if t + eps > 0:
                sc.append(({"callers": [get("01", force_io=True, timeout=round(t + eps, 4))], "sizes": sizes, "dev": ("fate", "bump")}, 1))
    for t in (0.25, 0.52, 1.03, 1.6, 2.2, 4.0):
        sc.append(({"callers": [get("01", timeout=t)], "sizes": sizes, "dev": ("fate", "bump", "overhear")}, 1 if quick else 2))
    # 3. the zone already holds a schedule (not the initial state): unchanged / changed / another zone changed
    for pre in ((), ("01",), ("02",)):
        for force in (False, True):
            for age in (0, 200):
                sc.append(({"callers": [get("01", force_io=force)], "sizes": sizes, "warm": ("01", "02"), "pre_bump": pre, "age": age, "dev": full}, 1 if quick else 2))
    sc.append(({"callers": [get("01", force_io=True)], "sizes": {"01": 2, "02": 2}, "warm": ("01", "02"), "pre_bump": ("01",), "dev": full + ("bumpsize",)}, 2))
    # 3b. versions that differ only in their tail: the first fragment is the same before and after the change
    for kind in ("T2", "T3"):
        tz = {"01": kind, "02": 1}
        for force in (False, True):
            sc.append(({"callers": [get("01", force_io=force)], "sizes": tz, "warm": ("01",), "pre_bump": ("01",), "dev": full}, 1 if quick else 2))
            sc.append(({"callers": [get("01", force_io=force)], "sizes": tz, "warm": ("01",), "pre_bump": ("01",), "age": 200, "dev": ("fate",)}, 1))
        sc.append(({"callers": [get("01", force_io=True)], "sizes": tz, "dev": full}, 2))
        sc.append(({"callers": [put("01", size=kind)], "sizes": tz, "warm": ("01",), "dev": full}, 1))
    # 4. writes
    sc.append(({"callers": [put("01", size=2)], "sizes": sizes, "dev": full}, 2))
    sc.append(({"callers": [put("HW", size=2)], "sizes": sizes, "dev": full}, 1 if quick else 2))
    sc.append(({"callers": [put("02", size=3)], "sizes": sizes, "warm": ("02",), "dev": full}, 1 if quick else 2))
    # 5. concurrent transfers, the later ones starting at every exchange of the first
    pairs = [
        (get("01"), get("02")),
        (get("01"), get("01", force_io=True)),
        (get("01", force_io=True), put("01", size=2)),
        (put("01", size=2), get("02")),
        (put("01", size=2), get("01", force_io=True)),
        (get("HW"), get("01")),
        (put("01", size=2), put("02", size=2)),
        (get("01", timeout=1.0), get("02")),
    ]
    for a, b in pairs:
        for k in (0, 1, 2, 3) if quick else (0, 1, 2, 3, 4):
            sc.append(({"callers": [a, dict(b, start=k)], "sizes": sizes, "dev": full}, 1 if quick or k > 1 else 2))
    sc.append(({"callers": [get("01"), get("02"), get("HW")], "sizes": sizes, "dev": full}, 1))
    sc.append(({"callers": [get("01", force_io=True), dict(put("02", size=2), start=1), dict(get("HW"), start=2)], "sizes": sizes, "dev": full}, 1))
    # 5b. the library learns of a change through ANOTHER zone's transfer (its counter read), then is asked - without forcing I/O - for the
    #     zone that changed: the cached schedule is known to be superseded
    for k in (1, 2, 3):
        for age in (0, 200):
            sc.append(({"callers": [get("02", force_io=True), dict(get("01"), start=k)], "sizes": sizes, "warm": ("01", "02"), "pre_bump": ("01",), "age": age, "dev": ("fate", "bump")}, 1))
    sc.append(({"callers": [put("02", size=2), dict(get("01"), start=3)], "sizes": sizes, "warm": ("01", "02"), "pre_bump": ("01",), "dev": ("fate",)}, 1))
    # 6. a zone without a schedule
    sc.append(({"callers": [get("01")], "sizes": {"01": 0, "02": 1}, "dev": ("fate", "overhear", "cancel")}, 2))
    return sc


def _task(args):
    params, D, audit_every, seed = args
    logcap.install()

    def run(prefix, expect):
        return run_world(params, prefix, expect)

    def check(obs):
        return oracle(obs, params)

    X.set_job(run, check, outcome_digest)
    s = X._dfs(([], None, 0), D, audit_every, seed)
    for vv in s.violations.values():
        vv.setdefault("params", params)
    gc.collect()
    return s


def run(ctx) -> None:
    logcap.install()
    sc = scenarios(ctx.quick)
    tasks = [(p, D, 25, ctx.seed) for p, D in X.rotate(sc, ctx.seed)]
    # biggest first so the pool drains evenly
    tasks.sort(key=lambda t: -(t[1] * 10 + len(t[0]["callers"])))
    total = X.Summary()
    byD: dict[int, int] = {}
    with mp.get_context("fork").Pool(X.ncpu()) as pool:
        for t, s in zip(tasks, pool.imap(_task, tasks, chunksize=1)):
            total.merge(s)
            byD[t[1]] = byD.get(t[1], 0) + s.executions
    ctx.vcount = dict(total.vcount)
    for vv in sorted(total.violations.values(), key=lambda v: (v["cost"], len(v["choices"]))):
        ctx.violation(vv["key"], vv["what"] + f"  [scenario {json.dumps(vv['params'], sort_keys=True)[:300]}]", {"params": vv["params"], "choices": vv["choices"], "labels": vv["labels"]})
    ctx.nviol_total = total.nviol
    ctx.coverage.update(
        states=total.nodes,
        transitions=max(1, total.nodes - len(sc)),
        traces_validated_against_impl=total.executions,
        executions=total.executions,
        scenarios=len(sc),
        executions_by_deviation_bound={str(k): v for k, v in sorted(byD.items())},
        deviation_bound_completed=max(d for _, d in sc),
        max_depth=total.max_depth,
        distinct_outcomes=len(total.outcomes),
        deviations_taken=dict(total.actions),
        determinism_audits=total.audited,
        caps_hit=0,
        exhaustive=True,
        samples=total.samples[:3],
        rule="every schedule of each scenario with total deviation cost <= D (stateless DFS, prefix replay on a fresh real Gateway + "
        "Schedule/ScheduleSync + QoS FSM on the virtual loop, scripted controller as reference); choice points: fate of every transmission "
        "{ok, reply lost, transmission lost, reply duplicated, reply late, reply very late}, and at the first transmission of every 0006/0404 command an environment "
        "event {none, schedule of any zone changes on the controller (same/other fragment count), any fragment of any zone overheard, a caller abandons}; "
        "scenario product: get/set x zones 01 02 HW x force_io x cold/cached(+changed, +aged past the 3-minute counter cache) x caller time-out around each "
        "exchange boundary x 2-3 concurrent transfers started at each exchange; after every episode: lock free, fault-free follow-up fetch of every zone",
    )
    ctx.assumptions += [
        "the scripted controller commits a written schedule when the last fragment arrives with all others present, answers 0404 requests from its current version, "
        "stays silent for a fragment number beyond the current total, increments its counter once per change",
        "echo +10 ms, reply +30 ms, late reply +600 ms (after the 0.5 s retransmission timer); overheard fragments arrive 2 ms after the transmission that opens an exchange",
        "the library's own fragment codec is used by the scripted controller (its correctness is C17's subject)",
    ]


def replay(rep: dict):
    logcap.install()
    ch, obs = run_world(rep["params"], rep["choices"], None)
    return oracle(obs, rep["params"])
