"""C15 - the schema is always well-formed, re-loadable and structurally consistent (E2 histories + E3 generated schemas)."""

from __future__ import annotations

import itertools
import json

from checks import gwy_common as GC
from mc import enum as E
from mc import gwyworld as G
from mc import logcap

PROPERTY = "C15"
LEVEL = "exploration"


def norm(schema) -> str:
    return json.dumps(schema, sort_keys=True, default=str)


def topology(gwy) -> dict:
    """controllers -> zones (class, sensor, actuators), DHW parts, appliance control: what a reload must reproduce."""
    out = {}
    for cid, tcs in gwy.system_by_id.items():
        sch = tcs.schema
        out[cid] = {
            "zones": {i: (z.get("class"), z.get("sensor"), tuple(sorted(z.get("actuators") or []))) for i, z in (sch.get("zones") or {}).items()},
            "dhw": {k: v for k, v in (sch.get("stored_hotwater") or {}).items()},
            "has_dhw": getattr(tcs, "dhw", None) is not None,  # the subsystem itself (it may exist with none of its devices known)
            "app": (sch.get("system") or {}).get("appliance_control"),
            "ufh": sorted(sch.get("underfloor_heating") or {}),
        }
    return out


def graph_invariants(gwy, max_zones: int) -> list[tuple[str, str]]:
    out = []
    seen_in_zone: dict[str, str] = {}
    for tcs in gwy.systems:
        for z in tcs.zones:
            try:
                if int(z.idx, 16) >= max_zones:
                    out.append(("C15:zone-index-beyond-max_zones", f"zone {z.id} exists with max_zones={max_zones}"))
            except ValueError:
                pass
            sens = getattr(z, "sensor", None)
            for ch in getattr(z, "childs", []):
                if getattr(ch, "_parent", None) is not z:
                    out.append(("C15:child-without-back-pointer", f"{ch.id} is listed under {z.id} but its parent is {getattr(ch, '_parent', None)}"))
            for d in list(getattr(z, "actuators", []) or []):
                prev = seen_in_zone.setdefault(d.id, z.id)
                if prev != z.id:
                    out.append(("C15:device-in-two-zones", f"{d.id} is an actuator of both {prev} and {z.id}"))
        sensors: dict[str, list] = {}
        for z in tcs.zones:
            s = getattr(z, "sensor", None)
            if s is not None and getattr(s, "id", None) != tcs.ctl.id:
                sensors.setdefault(s.id, []).append(z.id)
        for sid, zs in sensors.items():
            if len(zs) > 1:
                out.append(("C15:sensor-of-two-zones", f"{sid} is the sensor of {zs}"))
    ctl_of: dict[str, str] = {}
    for d in gwy.devices:
        p = getattr(d, "_parent", None)
        if p is not None and hasattr(p, "childs") and d not in p.childs and getattr(p, "sensor", None) is not d:
            out.append(("C15:parent-without-child", f"{d.id} has parent {getattr(p, 'id', p)} which does not list it"))
        tcs = getattr(d, "tcs", None)
        if tcs is not None:
            prev = ctl_of.setdefault(d.id, tcs.id)
    # a device appears under at most one controller in the reported schema
    where: dict[str, set] = {}
    sch = gwy.schema
    for cid, s in sch.items():
        if not isinstance(s, dict):
            continue
        ids = set()
        for z in (s.get("zones") or {}).values():
            ids.update(x for x in [z.get("sensor")] + list(z.get("actuators") or []) if x)
        ids.update(v for v in (s.get("stored_hotwater") or {}).values() if isinstance(v, str))
        for i in ids:
            if i != cid:
                where.setdefault(i, set()).add(cid)
    for i, cs in where.items():
        if len(cs) > 1:
            out.append(("C15:device-under-two-controllers", f"{i} appears under {sorted(cs)}"))
    # a device has at most one place (zone / DHW / appliance role); sensor + actuator of the SAME zone is one place
    for i, ps in places(gwy).items():
        spots = {p for p in ps}
        if len(spots) > 1:
            out.append(("C15:device-in-two-places", f"{i} is listed at {sorted(spots)}"))
    return out


def check_state(t: E.Tally, gwy, w, rep: dict, where: str, eav: bool, max_zones: int) -> None:
    from ramses_rf.helpers import shrink
    from ramses_rf.schemas import SCH_GLOBAL_SCHEMAS

    t.n += 1
    try:
        schema = gwy.schema
    except Exception as e:  # noqa: BLE001
        t.bad(f"C15:schema-raises:{type(e).__name__}", f"{where}: {e}", rep)
        return
    for name, s in (("full", schema), ("shrunk", shrink(schema))):
        try:
            SCH_GLOBAL_SCHEMAS(json.loads(json.dumps(s)))
        except Exception as e:  # noqa: BLE001
            nufc = max((len(v.get("underfloor_heating") or {}) for v in schema.values() if isinstance(v, dict)), default=0)
            t.bad(f"C15:schema-rejected-by-validator:{name}" + (":more-than-3-ufh-controllers" if nufc > 3 else ""), f"{where}: {str(e)[:200]}", rep)
            return
    for key, what in graph_invariants(gwy, max_zones):
        t.bad(key, f"{where}: {what}", rep)
    # reload: a fresh gateway constructed with the reported schema reports the same
    topo1 = topology(gwy)
    w2 = G.GwyWorld()
    try:
        try:
            g2 = w2.add_gateway(config={"disable_discovery": True, "enforce_known_list": False, "enable_eavesdrop": eav, "max_zones": max_zones}, **json.loads(json.dumps(schema)))
        except Exception as e:  # noqa: BLE001
            t.bad(f"C15:reload-fails:{type(e).__name__}:{GC._origin(e)}", f"{where}: a fresh gateway refuses the reported schema: {str(e)[:160]}", rep)
            return
        topo2 = topology(g2)
        if topo2 != topo1:
            d = _tdiff(topo1, topo2)
            t.bad(f"C15:reload-not-a-fixpoint:{d[0]}", f"{where}: {d[1]}", rep)
    finally:
        w2.close()


def _tdiff(a, b):
    for cid in sorted(set(a) | set(b)):
        if cid not in b:
            return "controller-lost", f"controller {cid} is not in the reloaded gateway"
        if cid not in a:
            return "controller-gained", f"controller {cid} appeared"
        for part in ("zones", "dhw", "has_dhw", "app", "ufh"):
            if a[cid][part] != b[cid][part]:
                return part, f"{cid} {part}: {str(a[cid][part])[:120]} -> {str(b[cid][part])[:120]}"
    return "other", "differs"


def _sdiff(a, b, p="") -> str:
    if isinstance(a, dict) and isinstance(b, dict):
        for k in sorted(set(a) | set(b), key=str):
            if a.get(k) != b.get(k):
                return _sdiff(a.get(k), b.get(k), f"{p}/{k}")
    return f"{p}: {str(a)[:70]} -> {str(b)[:70]}"


def parents(gwy) -> dict:
    return {d.id: getattr(getattr(d, "_parent", None), "id", None) for d in gwy.devices}


def zone_sensors(gwy) -> dict:
    out = {}
    for tcs in gwy.systems:
        for z in getattr(tcs, "zones", []):
            s = getattr(z, "sensor", None)
            out[z.id] = getattr(s, "id", None)
    return out


def role_holders(gwy) -> dict:
    """(zone sensor | DHW sensor / hot-water valve / heating valve | appliance control) -> the device holding that role."""
    out = {}
    for tcs in gwy.systems:
        for z in getattr(tcs, "zones", []):
            out[f"{z.id}/sensor"] = getattr(getattr(z, "sensor", None), "id", None)
        dhw = getattr(tcs, "dhw", None)
        if dhw is not None:
            for role in ("sensor", "hotwater_valve", "heating_valve"):
                out[f"{dhw.id}/{role}"] = getattr(getattr(dhw, role, None), "id", None)
        out[f"{tcs.id}/appliance_control"] = getattr(getattr(tcs, "appliance_control", None), "id", None)
    return out


def places(gwy) -> dict:
    """device id -> every place the reported schema lists it in (zone sensor / actuator, DHW part, appliance control)."""
    out: dict[str, set] = {}
    for cid, s in gwy.schema.items():
        if not isinstance(s, dict):
            continue
        for zi, z in (s.get("zones") or {}).items():
            if z.get("sensor"):
                out.setdefault(z["sensor"], set()).add(f"{cid}/{zi}")
            for a in z.get("actuators") or []:
                out.setdefault(a, set()).add(f"{cid}/{zi}")
        for k, v in (s.get("stored_hotwater") or {}).items():
            if isinstance(v, str):
                out.setdefault(v, set()).add(f"{cid}/dhw:{k}")
        app = (s.get("system") or {}).get("appliance_control")
        if app:
            out.setdefault(app, set()).add(f"{cid}/appliance")
    return out


def run_history(t: E.Tally, lines, rep, label, eav, max_zones, at: set[int]) -> None:
    w, gwy = GC.new_world(eavesdrop=eav, max_zones=max_zones)
    try:
        par = {}
        held: dict = {}
        sens: dict = {}
        for k, ln in enumerate(lines):
            nexc, nlog = len(w.loop.exc), len(logcap.CAP.records)
            GC.feed(w, ln)
            now = parents(gwy)
            zs = zone_sensors(gwy)
            swapped = [(z, sens[z], s) for z, s in zs.items() if sens.get(z) is not None and s is not None and s != sens[z]]
            if swapped:
                reported = any("Inconsistent" in str(type(c.get("exception")).__name__) for c in w.loop.exc[nexc:]) or any("Inconsistent" in r[1] for r in logcap.CAP.records[nlog:])
                if not reported:
                    z, a, b = swapped[0]
                    t.bad("C15:zone-sensor-replaced-silently", f"{label} line {k} {ln[2][:60]!r}: the sensor of {z} changed from {a} to {b} and no inconsistency was reported", rep)
            sens = zs
            # a role that HAD a holder gets another one (also by way of 'nobody' in between: an empty reply is not an un-binding, the
            # old holder is still attached) - only ever with the inconsistency reported
            rh = role_holders(gwy)
            for role, dev in rh.items():
                if dev is not None and held.get(role) not in (None, dev):
                    reported = any("Inconsistent" in str(type(c.get("exception")).__name__) for c in w.loop.exc[nexc:]) or any("Inconsistent" in r[1] for r in logcap.CAP.records[nlog:])
                    if not reported:
                        t.bad("C15:role-holder-replaced-silently:" + role.rsplit("/", 1)[-1], f"{label} line {k} {ln[2][:60]!r}: {role} went from {held[role]} to {dev} and no inconsistency was reported", rep)
                if dev is not None:
                    held[role] = dev
            moved = [(d, par[d], p) for d, p in now.items() if par.get(d) is not None and p != par[d]]
            if moved:
                reported = any("Inconsistent" in str(type(c.get("exception")).__name__) for c in w.loop.exc[nexc:]) or any("Inconsistent" in r[1] for r in logcap.CAP.records[nlog:])
                if not reported:
                    d, a, b = moved[0]
                    t.bad("C15:device-moved-to-another-parent-silently", f"{label} line {k} {ln[2][:60]!r}: {d} moved from {a} to {b} and no inconsistency was reported", rep)
            par = now
            if k in at:
                check_state(t, gwy, w, rep, f"{label} after line {k}", eav, max_zones)
    finally:
        w.close()


def shard_hist(arg) -> E.Tally:
    rel, eav, mz, i, nsh, edits = arg
    logcap.install()
    t = E.Tally()
    lines = GC.retime(GC.log(rel))
    n = len(lines)
    if not edits:
        run_history(t, lines, {"log": rel, "eav": eav, "mz": mz, "edit": None}, rel, eav, mz, set(range(0, n, 10)) | {n - 1})
        t.nontrivial += 1
        return t
    for j, (lab, pos, hist) in enumerate(GC.single_edits(GC.log(rel), splice_from=[], fields=True)):
        if j % nsh != i or lab.startswith("clone"):
            continue
        hist = GC.retime(hist)
        run_history(t, hist, {"log": rel, "eav": eav, "mz": mz, "edit": lab}, f"{rel}[{lab}]", eav, mz, {min(len(hist) - 1, pos + 2), len(hist) - 1})
        t.nontrivial += 1
        if j % 701 == 0:
            t.sample({"log": rel, "edit": lab, "eavesdrop": eav, "max_zones": mz})
    return t


# --- generated schemas (configuration product) ------------------------------------------------------
CLASSES = ("radiator_valve", "zone_valve", "electric_heat", "mixing_valve", "underfloor_heating")


def gen_schemas(quick: bool):
    ctl = "01:111111"
    zone_opts = [None]
    acts_pool = ("04:111111", "04:222222")
    for klass in CLASSES:
        for sensor in (None, "34:111111", "04:111111", ctl):
            for acts in ((), acts_pool[:1], acts_pool):
                if klass != "radiator_valve" and acts:
                    continue
                zone_opts.append({"class": klass, "sensor": sensor, "actuators": list(acts)})
    zone_opts.append({})  # a zone about which nothing is known
    dhw_parts = ("sensor", "hotwater_valve", "heating_valve")
    dhw_ids = {"sensor": "07:111111", "hotwater_valve": "13:111111", "heating_valve": "13:222222"}
    n = 0
    for z0 in zone_opts:
        for z1 in zone_opts if not quick else zone_opts[::4]:
            for zb in (None, {"class": "zone_valve", "sensor": "34:222222", "actuators": ["13:333333"]}, {}):
                for dmask in range(8):
                    for app in (None, "13:444444", "10:111111"):
                        if quick and (dmask not in (0, 1, 4, 7) or (app == "13:444444" and zb)):
                            continue
                        zones = {}
                        used = set()
                        ok = True
                        for idx, z in (("00", z0), ("01", z1), ("0B", zb)):
                            if z is None:
                                continue
                            ids = [x for x in [z.get("sensor")] + list(z.get("actuators") or []) if x]
                            if any(x in used for x in ids):
                                ok = False  # a device belongs to one zone only: not a schema the validator's user would write
                            used.update(ids)
                            zones[idx] = z
                        if not ok:
                            continue
                        tcs = {"system": {"appliance_control": app}, "zones": zones}
                        dhw = {p: dhw_ids[p] for b, p in enumerate(dhw_parts) if dmask >> b & 1}
                        if dhw:
                            tcs["stored_hotwater"] = dhw
                        n += 1
                        yield {"main_tcs": ctl, ctl: tcs}
    # two controllers, orphans, UFH
    for two in (False, True):
        for orph in ((), ("34:333333",), ("34:333333", "13:555555")):
            for ufh in (False, True):
                sch = {"main_tcs": ctl, ctl: {"system": {"appliance_control": "10:111111"}, "zones": {"00": {"class": "radiator_valve", "sensor": "34:111111", "actuators": ["04:111111"]}}}}
                if ufh:
                    sch[ctl]["underfloor_heating"] = {"02:111111": {}}
                if two:
                    sch["01:222222"] = {"system": {"appliance_control": "13:666666"}, "zones": {"01": {"class": "zone_valve", "sensor": "34:444444", "actuators": ["13:777777"]}}, "stored_hotwater": {"sensor": "07:222222"}}
                if orph:
                    sch["orphans_heat"] = list(orph)
                yield sch
                # devices bound to the controller but to no zone (the per-system 'orphans' list)
                for tcs_orph in (("02:333333",), ("04:888888",), ("13:888888",), ("34:888888", "10:888888")):
                    s2 = json.loads(json.dumps(sch))
                    s2[ctl]["orphans"] = list(tcs_orph)
                    yield s2


def gen_schemas_2(quick: bool):
    """More shapes the validator accepts: 1-3 UFH controllers (with and without configured circuits, plus one more listed as the
    controller's orphan), a second controller named as a zone's sensor, one device in two places of two controllers."""
    ctl, ctl2 = "01:111111", "01:222222"
    base = {"main_tcs": ctl, ctl: {"system": {"appliance_control": "10:111111"}, "zones": {"00": {"class": "underfloor_heating", "sensor": "34:111111", "actuators": []}}}}
    ufcs = ("02:111111", "02:222222", "02:333333")
    for n in (1, 2, 3):
        for circ in (None, {}, {"circuits": None}, {"circuits": {"00": {"zone_idx": "00"}}}, {"circuits": {"00": {"zone_idx": "00"}, "01": {}}}):
            for extra in ((), ("02:444444",)):
                sch = json.loads(json.dumps(base))
                sch[ctl]["underfloor_heating"] = {u: circ for u in ufcs[:n]}
                if extra:
                    sch[ctl]["orphans"] = list(extra)
                yield sch
    for sensor in (ctl2, ctl):
        for idx in ("00", "01"):
            sch = json.loads(json.dumps(base))
            sch[ctl]["zones"] = {idx: {"class": "radiator_valve", "sensor": sensor, "actuators": ["04:111111"]}}
            sch[ctl2] = {"system": {"appliance_control": "13:666666"}, "zones": {"01": {"class": "zone_valve", "sensor": "34:444444", "actuators": ["13:777777"]}}}
            yield sch
            s3 = json.loads(json.dumps(sch))
            s3[ctl2] = {"zones": {"01": {}}}
            yield s3
    for shared in ("34:111111", "13:666666", "07:111111"):
        sch = json.loads(json.dumps(base))
        sch[ctl]["zones"]["00"] = {"class": "radiator_valve", "sensor": "34:111111", "actuators": []}
        sch[ctl]["stored_hotwater"] = {"sensor": "07:111111"}
        sch[ctl2] = {"system": {"appliance_control": "13:666666"}, "zones": {"01": {"class": "zone_valve", "sensor": "34:444444", "actuators": ["13:777777"]}}}
        if shared[:2] == "34":
            sch[ctl2]["zones"]["01"]["sensor"] = shared
        elif shared[:2] == "13":
            sch[ctl]["system"]["appliance_control"] = shared
        else:
            sch[ctl2]["stored_hotwater"] = {"sensor": shared}
        yield sch


def _one_device_two_places(sch: dict) -> bool:
    """Does the configuration name one device in two places (two controllers' subsystems, or a controller as a zone sensor of another)?"""
    seen: dict = {}
    ctls = [k for k in sch if k[2:3] == ":"]
    for c in ctls:
        v = sch[c]
        ids = [v.get("system", {}).get("appliance_control")] + list((v.get("stored_hotwater") or {}).values()) + list(v.get("underfloor_heating") or {})
        for z in (v.get("zones") or {}).values():
            ids += [z.get("sensor")] + list(z.get("actuators") or [])
        for x in ids:
            if x and (x in seen and seen[x] != c or (x in ctls and x != c)):
                return True
            if x:
                seen[x] = c
    return False


def _orph_tag(sch: dict) -> str:
    """':tcs-orphans' when the schema lists a non-UFC device in a controller's own 'orphans' (a recorded finding)."""
    for v in sch.values():
        if isinstance(v, dict) and any(o[:3] != "02:" for o in v.get("orphans") or ()):
            return ":tcs-orphans"
    return ""


def judge_generated(t: E.Tally, sch: dict) -> bool:
    """All clauses for one generated configuration; -> True if it was loaded (non-trivial)."""
    rep = {"schema": sch}
    w = G.GwyWorld()
    try:
        try:
            gwy = w.add_gateway(config={"disable_discovery": True, "enforce_known_list": False}, **json.loads(json.dumps(sch)))
        except Exception as e:  # noqa: BLE001
            if _one_device_two_places(sch) and type(e).__name__ == "SystemSchemaInconsistent":
                t.by["inconsistent-schema-refused"] += 1  # (the inconsistency is reported: what the statement asks for)
                return False
            t.bad(f"C15:accepted-schema-does-not-load:{type(e).__name__}:{GC._origin(e)}{_orph_tag(sch)}", f"{json.dumps(sch)[:200]}: {str(e)[:140]}", rep)
            return False
        if _one_device_two_places(sch):
            # loaded all the same: then the result must at least be consistent and must not have lost a controller silently
            if set(gwy.system_by_id) != {k for k in sch if k[2:3] == ":"}:
                t.bad("C15:inconsistent-schema-loads-and-loses-a-controller", f"{json.dumps(sch)[:260]} -> controllers {sorted(gwy.system_by_id)}", rep)
            check_state(t, gwy, w, rep, "generated (inconsistent) schema", False, 12)
            return True
        # what was configured is what is reported
        topo = topology(gwy)
        for cid in (k for k in sch if k[2:3] == ":"):
            want_z = {i: (z.get("class"), z.get("sensor"), tuple(sorted(z.get("actuators") or []))) for i, z in sch[cid].get("zones", {}).items()}
            got_z = topo.get(cid, {}).get("zones", {})
            if {k: v for k, v in got_z.items()} != want_z:
                t.bad("C15:loaded-zones-differ-from-configuration", f"{json.dumps(sch[cid].get('zones'))[:160]} -> {str(got_z)[:160]}", rep)
            want_d = sch[cid].get("stored_hotwater", {})
            got_d = {k: v for k, v in topo.get(cid, {}).get("dhw", {}).items() if v}
            if got_d != want_d:
                t.bad("C15:loaded-dhw-differs-from-configuration", f"{want_d} -> {got_d}", rep)
            if topo.get(cid, {}).get("app") != sch[cid].get("system", {}).get("appliance_control"):
                t.bad("C15:loaded-appliance-differs-from-configuration", f"{sch[cid].get('system')} -> {topo.get(cid, {}).get('app')}", rep)
        check_state(t, gwy, w, rep, "generated schema", False, 12)
        return True
    finally:
        w.close()


def shard_gen(arg) -> E.Tally:
    i, n, quick = arg
    from ramses_rf.schemas import SCH_GLOBAL_SCHEMAS

    logcap.install()
    t = E.Tally()
    for j, sch in enumerate(itertools.chain(gen_schemas(quick), gen_schemas_2(quick))):
        if j % n != i:
            continue
        t.n += 1
        try:
            SCH_GLOBAL_SCHEMAS(json.loads(json.dumps(sch)))
        except Exception:  # noqa: BLE001
            t.by["rejected-by-validator"] += 1
            continue
        if judge_generated(t, sch):
            t.nontrivial += 1
            if j % 997 == 0:
                t.sample(sch)
    t.by["schemas"] = t.n
    return t


def _dispatch(job) -> E.Tally:
    return globals()[job[0]](job[1])


def plan(quick: bool):
    jobs = [("shard_gen", (i, 32, quick)) for i in range(32)]
    logs = GC.available(GC.SYSTEM_LOGS + GC.OTHER_LOGS)
    for rel in logs:
        n = len(GC.log(rel))
        if quick and n > 300:
            continue
        for eav in (False, True):
            for mz in (1, 4, 12, 16):
                jobs.append(("shard_hist", (rel, eav, mz, 0, 1, False)))
    for rel in logs:
        n = len(GC.log(rel))
        if n > (170 if quick else 600):
            continue
        nsh = max(1, n // 10)
        for eav in (False, True):
            for mz in (12,) if quick else (4, 12):
                for i in range(nsh):
                    jobs.append(("shard_hist", (rel, eav, mz, i, nsh, True)))
    # the largest configurable max_zones with every single edit (zone indexes 0C-0F become reachable): shortest logs (quick) / all
    for rel in logs:
        n = len(GC.log(rel))
        if n > (60 if quick else 600):
            continue
        nsh = max(1, n // 10)
        for i in range(nsh):
            jobs.append(("shard_hist", (rel, False, 16, i, nsh, True)))
    return jobs


def run(ctx) -> None:
    total = E.pmap(_dispatch, plan(ctx.quick), ctx.seed)
    E.report(
        ctx,
        total,
        rule="(1) generated schemas: full product of zone 00 and 01 options (absent / 5 classes x sensor none|34:|04:|controller x actuators 0-2 / empty zone) x "
        "zone 0B x every subset of DHW parts x appliance none|13:|10:, + two controllers / orphans / UFH: validator accepts => loads, reports what was "
        "configured, reloads to the same; (2) histories: the repo's logs under max_zones 1/4/12/16, eavesdropping off/on, checked every 10th packet, and every single edit also under max_zones 16, "
        "and every single edit (delete/duplicate/swap/field mutation) checked after the edit and at the end: reported schema validates (full and "
        "shrunk), a fresh gateway built from it has the same controllers/zones/DHW/appliance, graph invariants hold, no device changes parent silently",
        exhaustive=True,
    )
    ctx.assumptions += ["generated schemas never put one device in two zones (such a configuration is the user's contradiction, not the library's)"]


def replay(rep: dict):
    logcap.install()
    t = E.Tally()
    if "schema" in rep:
        judge_generated(t, rep["schema"])
        return [(k, v["what"]) for k, v in t.viol.items()]
    lines = GC.log(rep["log"])
    if rep.get("edit") is None:
        t.merge(shard_hist((rep["log"], rep["eav"], rep["mz"], 0, 1, False)))
    else:
        for lab, pos, hist in GC.single_edits(lines, splice_from=[], fields=True):
            if lab == rep["edit"]:
                hist = GC.retime(hist)
                run_history(t, hist, rep, f"{rep['log']}[{lab}]", rep["eav"], rep["mz"], {min(len(hist) - 1, pos + 2), len(hist) - 1})
    return [(k, v["what"]) for k, v in t.viol.items()]


def _one_gen(sch) -> E.Tally:
    """Re-run the generated-schema clauses for one schema."""
    t = E.Tally()
    judge_generated(t, sch)
    return t
