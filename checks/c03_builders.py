"""C03 - command builders emit valid frames of the advertised verb/code that decode back (E3).

For every constructor in CODE_API_MAP a *domain description* (below) lists finite per-argument
domains; the full product of the in-domain lists is enumerated (with complete 0.01 sweeps for the
temperature arguments), plus per-argument out-of-domain values.
"""

from __future__ import annotations

import itertools
import math
from datetime import datetime as dt

from mc import enum as E
from mc import logcap

PROPERTY = "C03"
LEVEL = "exploration"

CTL = "01:145038"
OTB = "10:067219"
BDR = "13:111111"
DHW = "07:045960"
RND = "34:021943"
FAN = "32:155617"
REM = "37:155617"
OUT = "17:123456"

IDX_IN = [0, 1, 11, 15, "00", "01", "0B", "0F"]
IDX_OUT = [-1, 16, 0x20, 255, "10", "20", "zz", None, 1.5]
DTMS = [
    dt(2024, 2, 29, 12, 5),
    dt(2023, 3, 26, 1, 55),
    dt(2099, 12, 31, 23, 55),
    dt(2024, 1, 1, 0, 0),
    "2024-02-29T12:05:00",
    # 'until' has a resolution of 1 minute: seconds may be dropped or rounded, nothing else may change
    dt(2024, 2, 29, 12, 59, 45),
    dt(2024, 12, 31, 23, 59, 59),
    dt(2024, 1, 1, 0, 0, 29),
    dt(2024, 6, 30, 23, 59, 30),
]
ZMODES = {"follow_schedule": "00", "advanced_override": "01", "permanent_override": "02", "countdown_override": "03", "temporary_override": "04"}
SMODES = {"auto": "00", "heat_off": "01", "eco_boost": "02", "away": "03", "day_off": "04", "day_off_eco": "05", "auto_with_reset": "06", "custom": "07"}


SKIP = "<not compared>"


def idx_hex(i) -> str:
    return f"{i:02X}" if isinstance(i, int) else ("FA" if i == "HW" else i)


def iso(x):
    return x if isinstance(x, str) else x.isoformat(timespec="seconds")


class Case:
    __slots__ = ("api", "fn", "args", "kw", "expect", "ok", "shape")

    def __init__(self, api, fn, args, kw, expect, ok, shape):
        self.api, self.fn, self.args, self.kw, self.expect, self.ok, self.shape = api, fn, args, kw, expect, ok, shape


def cases(quick: bool):
    """Yield every Case. `expect` maps decoded-payload keys to the value passed (None: key not compared)."""
    grid = lambda lo, hi, step=1: [k / 100 for k in range(lo, hi + 1, step)]  # noqa: E731

    # --- plain getters with a zone/dhw/domain index
    for api, fn, key in (
        ("RQ|0004", "get_zone_name", None),
        ("RQ|000A", "get_zone_config", "zone_idx"),
        ("RQ|1030", "get_mix_valve_params", None),
        ("RQ|2349", "get_zone_mode", "zone_idx"),
        ("RQ|2309", "get_zone_setpoint", None),
        ("RQ|30C9", "get_zone_temp", None),
        ("RQ|12B0", "get_zone_window_state", None),
    ):
        for i in IDX_IN:
            yield Case(api, fn, (CTL, i), {}, {key: idx_hex(i)} if key else {"_idx": idx_hex(i)}, True, "idx")
        for i in IDX_OUT:
            yield Case(api, fn, (CTL, i), {}, {"_idx": i}, False, "idx:out-of-range")
    for api, fn in (("RQ|0006", "get_schedule_version"), ("RQ|0100", "get_system_language"), ("RQ|2E04", "get_system_mode"), ("RQ|313F", "get_system_time")):
        for ctl in (CTL, "01:000001", "01:262143"):
            yield Case(api, fn, (ctl,), {}, {}, True, "-")
    for api, fn, key in (("RQ|1F41", "get_dhw_mode", None), ("RQ|10A0", "get_dhw_params", "dhw_idx"), ("RQ|1260", "get_dhw_temp", None)):
        for d in (None, 0, 1, "00", "01"):
            kw = {} if d is None else {"dhw_idx": d}
            yield Case(api, fn, (CTL,), kw, {key: idx_hex(d or 0)} if key else {"_idx": idx_hex(d or 0)}, True, "dhw_idx")
        for d in (2, 16, "02", "FA"):
            yield Case(api, fn, (CTL,), {"dhw_idx": d}, {"_idx": d}, False, "dhw_idx:out-of-range")
    # relay demand: a relay (no idx) or a controller's zone / domain
    yield Case("RQ|0008", "get_relay_demand", (BDR,), {}, {}, True, "relay")
    for i in IDX_IN[:4] + ["F9", "FA", "FC"]:
        yield Case("RQ|0008", "get_relay_demand", (CTL, i), {}, {"_idx": idx_hex(i)}, True, "zone_idx")
    # tpi params
    for d in (None, "FC", "00"):
        for dev in (CTL, BDR):
            kw = {} if d is None else {"domain_id": d}
            want = d if d is not None else ("00" if dev == BDR else "FC")
            yield Case("RQ|1100", "get_tpi_params", (dev,), kw, {"_idx": want}, True, "domain_id")
    for d in ("F9", "FA", "01", 16):
        yield Case("RQ|1100", "get_tpi_params", (CTL,), {"domain_id": d}, {"_idx": d}, False, "domain_id:out-of-range")
    # OpenTherm: all 256 msg-ids (int and hex-string forms)
    for m in range(256):
        yield Case("RQ|3220", "get_opentherm_data", (OTB, m), {}, {"msg_id": m}, m < 128, "msg_id" if m < 128 else "msg_id>=128")
        if m < 128 and not quick:
            yield Case("RQ|3220", "get_opentherm_data", (OTB, f"{m:02X}"), {}, {"msg_id": m}, True, "msg_id")
    # system log entry
    for i in list(range(0, 64)) + ["00", "3F"]:
        yield Case("RQ|0418", "get_system_log_entry", (CTL, i), {}, {"log_idx": idx_hex(i)}, True, "log_idx")
    for i in (64, 255, 256, -1):
        yield Case("RQ|0418", "get_system_log_entry", (CTL, i), {}, {"log_idx": i}, False, "log_idx:out-of-range")
    # schedule fragments
    for z in (0, 1, 11, "01", "HW", "FA", 0xFA):
        for n in range(0, 17):
            for tot in [None] + list(range(0, 17)):
                legal = n >= 1 and ((n == 1 and (tot in (None, 0))) or (n > 1 and (tot in (None, 0) or n <= tot)))
                zi = "00" if z in ("HW", "FA", 0xFA) else idx_hex(z)
                exp = {"frag_number": n, "total_frags": (tot or None)}  # 0 and None both mean 'not known yet'
                if z in ("HW", "FA", 0xFA):
                    exp["dhw_idx"] = None
                else:
                    exp["zone_idx"] = zi
                if quick and z not in (1, "HW") and (n > 3 or (tot or 0) > 3):
                    continue
                yield Case("RQ|0404", "get_schedule_fragment", (CTL, z, n, tot), {}, exp, legal, "frag" if legal else f"frag:n={min(n,2)},tot={'None' if tot is None else min(tot,2)}")
    for z in (1, "HW", 0, 11, "0B", "FA", 0xFA):  # (every way the index may be given, as for the RQ)
        for n in range(0, 13):
            for tot in range(0, 13):
                for frag in ("AA", "00" * 41, "AB" * 10):
                    legal = 1 <= n <= tot
                    exp = {"frag_number": n, "total_frags": tot, "frag_length": len(frag) // 2, "fragment": frag}
                    if z in ("HW", "FA", 0xFA):
                        exp["dhw_idx"] = None
                    else:
                        exp["zone_idx"] = idx_hex(z)
                    if quick and (n > 3 or tot > 4) and frag != "AA":
                        continue
                    if z not in (1, "HW") and (n > 3 or tot > 4 or frag != "AA"):
                        continue
                    yield Case(" W|0404", "set_schedule_fragment", (CTL, z, n, tot, frag), {}, exp, legal, "frag" if legal else "frag:illegal")
    # --- setters
    for z in IDX_IN:
        for name in ("", "K", "Kitchen", "Living Room", "A" * 20, "a-b_c.d/e"):
            yield Case(" W|0004", "set_zone_name", (CTL, z, name), {}, {"zone_idx": idx_hex(z), "name": name}, True, "name")
    for name in ("A" * 21, "Küche"):
        yield Case(" W|0004", "set_zone_name", (CTL, 1, name), {}, {"zone_idx": "01", "name": name}, False, f"name:{'long' if len(name) > 20 else 'non-ascii'}")
    for i in IDX_OUT:
        yield Case(" W|0004", "set_zone_name", (CTL, i, "x"), {}, {"_idx": i}, False, "idx:out-of-range")
    # zone config: complete sweeps of both temperatures, all flag combinations
    for flags in itertools.product((False, True), repeat=3):
        kwf = dict(zip(("local_override", "openwindow_function", "multiroom_mode"), flags))
        for z in (0, 11):
            yield Case(" W|000A", "set_zone_config", (CTL, z), dict(kwf, min_temp=5, max_temp=35), dict(kwf, zone_idx=idx_hex(z), min_temp=5, max_temp=35), True, "flags")
    for t in grid(500, 2100):
        yield Case(" W|000A", "set_zone_config", (CTL, 1), {"min_temp": t}, {"min_temp": t, "max_temp": 35}, True, "min_temp")
    for t in grid(2100, 3500):
        yield Case(" W|000A", "set_zone_config", (CTL, 1), {"max_temp": t}, {"min_temp": 5, "max_temp": t}, True, "max_temp")
    for kw in ({"min_temp": 4.99}, {"min_temp": 21.01}, {"max_temp": 20.99}, {"max_temp": 35.01}, {"local_override": 1}, {"multiroom_mode": None}, {"min_temp": math.nan}):
        yield Case(" W|000A", "set_zone_config", (CTL, 1), kw, dict(kw), False, "oor:" + ",".join(kw))
    # zone setpoint: complete sweep
    for t in grid(500, 3500):
        yield Case(" W|2309", "set_zone_setpoint", (CTL, "01", t), {}, {"zone_idx": "01", "setpoint": t}, True, "setpoint")
    for z in IDX_IN:
        yield Case(" W|2309", "set_zone_setpoint", (CTL, z, 21.5), {}, {"zone_idx": idx_hex(z), "setpoint": 21.5}, True, "idx")
    for t in (400.0, -400.0, 327.68, 655.36, math.nan, math.inf, "21"):
        yield Case(" W|2309", "set_zone_setpoint", (CTL, 1, t), {}, {"zone_idx": "01", "setpoint": t}, False, "setpoint:out-of-range")
    for i in IDX_OUT:
        yield Case(" W|2309", "set_zone_setpoint", (CTL, i, 21.0), {}, {"_idx": i}, False, "idx:out-of-range")
    # zone mode: modes x until x duration x setpoint
    for mname, mhex in ZMODES.items():
        for mode in (mname, mhex, int(mhex, 16)) if not quick else (mname, mhex):
            for until in [None] + DTMS:
                for duration in (None, 1, 60, 1215):
                    for sp in (None, 5.0, 21.5, 35.0):
                        legal = True
                        if mhex != "00" and sp is None:
                            legal = False
                        if until is not None and duration is not None:
                            legal = False
                        if mhex == "04" and duration is not None:
                            legal = False
                        if mhex == "03" and (duration is None or until is not None):
                            legal = False
                        if mhex in ("00", "01", "02") and (until is not None or duration is not None):
                            legal = False
                        if mhex == "04" and until is None:
                            legal = False  # documented as an incompatible combination
                        exp = {"zone_idx": "01", "mode": mname, "setpoint": sp}
                        if until is not None:
                            exp["until"] = iso(until)
                        if duration is not None:
                            exp["duration"] = duration
                        if mhex == "00":
                            exp["setpoint"] = SKIP  # documented: setpoint is ignored when following the schedule
                        kw = {"mode": mode, "setpoint": sp, "until": until, "duration": duration}
                        shape = f"mode={mhex}" + (",until" if until is not None else "") + (",duration" if duration is not None else "") + (",setpoint" if sp is not None else "")
                        yield Case(" W|2349", "set_zone_mode", (CTL, 1), kw, exp, legal, shape)
    for t in grid(500, 3500, 1 if not quick else 7):
        yield Case(" W|2349", "set_zone_mode", (CTL, 1), {"mode": "permanent_override", "setpoint": t}, {"zone_idx": "01", "mode": "permanent_override", "setpoint": t}, True, "setpoint-sweep")
    for mode in ("05", 5, "bogus"):
        yield Case(" W|2349", "set_zone_mode", (CTL, 1), {"mode": mode, "setpoint": 21.0}, {"mode": mode}, False, f"mode={mode!r}")
    # dhw mode
    for mname, mhex in ZMODES.items():
        for until in [None] + DTMS[:3]:
            for duration in (None, 1, 60):
                for active in (None, False, True):
                    legal = True
                    if mhex != "00" and active is None:
                        legal = False
                    if until is not None and duration is not None:
                        legal = False
                    if mhex == "04" and duration is not None:
                        legal = False
                    if mhex == "03" and (duration is None or until is not None):
                        legal = False
                    if mhex in ("00", "01", "02") and (until is not None or duration is not None):
                        legal = False
                    if mhex == "04" and until is None:
                        legal = False
                    exp = {"mode": mname, "active": active if mhex != "00" else SKIP}
                    if until is not None:
                        exp["until"] = iso(until)
                    if duration is not None:
                        exp["duration"] = duration
                    kw = {"mode": mname, "active": active, "until": until, "duration": duration}
                    shape = f"mode={mhex}" + (",until" if until is not None else "") + (",duration" if duration is not None else "") + (",active" if active is not None else "")
                    yield Case(" W|1F41", "set_dhw_mode", (CTL,), kw, exp, legal, shape)
    # dhw params: complete sweeps
    for t in grid(3000, 8500):
        yield Case(" W|10A0", "set_dhw_params", (CTL,), {"setpoint": t}, {"setpoint": t, "overrun": 5, "differential": 1.0}, True, "setpoint")
    for t in grid(100, 1000):
        yield Case(" W|10A0", "set_dhw_params", (CTL,), {"differential": t}, {"setpoint": 50.0, "differential": t}, True, "differential")
    for o in range(0, 11):
        for d in (None, 0, 1):
            kw = {"overrun": o} if d is None else {"overrun": o, "dhw_idx": d}
            yield Case(" W|10A0", "set_dhw_params", (CTL,), kw, {"overrun": o, "dhw_idx": idx_hex(d or 0)}, True, "overrun")
    for kw in ({"setpoint": 29.99}, {"setpoint": 85.01}, {"overrun": 11}, {"overrun": -1}, {"differential": 0.99}, {"differential": 10.01}):
        yield Case(" W|10A0", "set_dhw_params", (CTL,), kw, dict(kw), False, "oor:" + ",".join(kw))
    # mix valve params: full ranges of each, one at a time + corners
    for v in range(0, 100):
        yield Case(" W|1030", "set_mix_valve_params", (CTL, 1), {"max_flow_setpoint": v}, {"zone_idx": "01", "max_flow_setpoint": v}, True, "max_flow")
        yield Case(" W|1030", "set_mix_valve_params", (CTL, 1), {"pump_run_time": v}, {"pump_run_time": v}, True, "pump")
    for v in range(0, 51):
        yield Case(" W|1030", "set_mix_valve_params", (CTL, 1), {"min_flow_setpoint": v}, {"min_flow_setpoint": v}, True, "min_flow")
    for v in range(0, 241):
        yield Case(" W|1030", "set_mix_valve_params", (CTL, 1), {"valve_run_time": v}, {"valve_run_time": v}, True, "valve")
    for kw in ({"max_flow_setpoint": 100}, {"min_flow_setpoint": 51}, {"valve_run_time": 241}, {"pump_run_time": 100}, {"max_flow_setpoint": -1}):
        yield Case(" W|1030", "set_mix_valve_params", (CTL, 1), kw, dict(kw), False, "oor:" + ",".join(kw))
    # tpi params
    for dom in ("FC", "00", None):
        for cr in (1, 2, 3, 6, 9, 12):
            for on in (1, 2, 5):
                for off in (1, 3, 5):
                    for pbw in (None, 1.5, 2.5, 3.0):
                        kw = {"cycle_rate": cr, "min_on_time": on, "min_off_time": off, "proportional_band_width": pbw}
                        exp = dict(kw, _idx=dom or "00")
                        yield Case(" W|1100", "set_tpi_params", (CTL, dom), kw, exp, True, "tpi")
    for t in grid(150, 300):
        yield Case(" W|1100", "set_tpi_params", (CTL, "FC"), {"proportional_band_width": t}, {"proportional_band_width": t}, True, "pbw")
    # system mode x until
    for sname, shex in SMODES.items():
        for mode in (sname, shex):
            for until in [None] + DTMS:
                legal = not (until is not None and shex in ("00", "01", "06"))
                exp = {"system_mode": sname}
                if until is not None:
                    exp["until"] = iso(until)
                yield Case(" W|2E04", "set_system_mode", (CTL, mode), {"until": until}, exp, legal, f"mode={shex}" + (",until" if until is not None else ""))
    yield Case(" W|2E04", "set_system_mode", (CTL, None), {}, {"system_mode": "auto"}, True, "mode=None")
    for mode in ("08", 8, "bogus"):
        yield Case(" W|2E04", "set_system_mode", (CTL, mode), {}, {"system_mode": mode}, False, f"mode={mode!r}")
    # system time
    for d in DTMS[:4] + [dt(2024, 2, 29, 23, 59, 59), dt(2000, 1, 1, 0, 0, 1)]:
        for dst in (False, True):
            yield Case(" W|313F", "set_system_time", (CTL, d, dst), {}, {"datetime": iso(d), "is_dst": True if dst else None}, True, "dst" if dst else "-")
    # --- faked-device announcements (complete temperature sweeps on the plausible range)
    for api, fn, dev, key, extra in (
        (" I|0002", "put_weather_temp", OUT, "temperature", ()),
        (" I|1260", "put_dhw_temp", DHW, "temperature", ()),
        (" I|1290", "put_outdoor_temp", REM, "outdoor_temp", ()),
        (" I|30C9", "put_sensor_temp", RND, "temperature", ()),
    ):
        rng = grid(-2000, 6000, 1 if not quick or fn == "put_sensor_temp" else 3)
        for t in rng:
            yield Case(api, fn, (dev, t), {}, {key: t}, True, "temp")
        if fn != "put_weather_temp":
            yield Case(api, fn, (dev, None), {}, {key: None}, True, "temp=None")
        for t in (400.0, -400.0, 655.36, math.inf):
            yield Case(api, fn, (dev, t), {}, {key: t}, False, "temp:out-of-range")
    for bad in ("13:111111", "01:145038"):
        yield Case(" I|30C9", "put_sensor_temp", (bad, 20.0), {}, {}, False, "dev-type")
        yield Case(" I|1260", "put_dhw_temp", (bad, 20.0), {}, {}, False, "dev-type")
        yield Case(" I|0002", "put_weather_temp", (bad, 20.0), {}, {}, False, "dev-type")
    for v in list(range(0, 2001, 1 if not quick else 7)) + [None]:
        yield Case(" I|1298", "put_co2_level", (REM, v), {}, {"co2_level": v}, True, "co2")
    for v in (-1, 65536, 1e9):
        yield Case(" I|1298", "put_co2_level", (REM, v), {}, {"co2_level": v}, False, "co2:out-of-range")
    for k in list(range(0, 101)) + [None]:
        v = None if k is None else k / 100
        yield Case(" I|12A0", "put_indoor_humidity", (REM, v), {}, {"indoor_humidity": v}, True, "rh")
    for v in (-0.01, 1.01, 2):
        yield Case(" I|12A0", "put_indoor_humidity", (REM, v), {}, {"indoor_humidity": v}, False, "rh:out-of-range")
    for v in (True, False, None):
        yield Case(" I|2E10", "put_presence_detected", (REM, v), {}, {"presence_detected": v}, True, f"presence={v}")
    for k in range(0, 201):
        yield Case(" I|3EF0", "put_actuator_state", (BDR, k / 200), {}, {"modulation_level": k / 200}, True, "level" if k in (0, 200) else "level:fractional")
    yield Case(" I|3EF0", "put_actuator_state", (BDR, None), {}, {"modulation_level": None}, True, "level=None")
    yield Case(" I|3EF0", "put_actuator_state", (CTL, 0.0), {}, {}, False, "dev-type")
    for ml in (0.0, 1.0, 0.5, None):
        for ac in (0, 1, 300, 3599):
            for cc in (None, 0, 600, 3600):
                if ml is None:
                    continue
                yield Case("RP|3EF1", "put_actuator_cycle", (BDR, "18:000730", ml, ac), {"cycle_countdown": cc}, {"modulation_level": ml, "actuator_countdown": ac, "cycle_countdown": cc}, True, "cycle" if ml in (0.0, 1.0) else "cycle:fractional")
    # fan
    from ramses_tx.ramses import _22F1_MODE_ORCON, _2411_PARAMS_SCHEMA

    for mhex, mname in _22F1_MODE_ORCON.items():
        for mode in (mhex, mname, int(mhex, 16)):
            yield Case(" I|22F1", "set_fan_mode", (FAN, mode), {"src_id": REM}, {"_mode_idx": mhex}, True, "src_id")
            yield Case(" I|22F1", "set_fan_mode", (FAN, mode), {"seqn": 18}, {"_mode_idx": mhex}, True, "seqn")
            yield Case(" I|22F1", "set_fan_mode", (FAN, mode), {}, {"_mode_idx": mhex}, True, "neither")
    yield Case(" I|22F1", "set_fan_mode", (FAN, None), {"src_id": REM}, {"_mode_idx": "00"}, True, "mode=None")
    for mode in ("99", 99, "bogus"):
        yield Case(" I|22F1", "set_fan_mode", (FAN, mode), {"src_id": REM}, {}, False, f"mode={mode!r}")
    yield Case(" I|22F1", "set_fan_mode", (FAN, 2), {"src_id": REM, "seqn": 18}, {}, False, "seqn+src")
    for pid in sorted(_2411_PARAMS_SCHEMA):
        for val in (0, 1, 100, 65535):
            yield Case(" W|2411", "set_fan_param", (FAN, pid, val), {"src_id": REM}, {"parameter": pid}, True, "param")
    yield Case(" W|2411", "set_fan_param", (FAN, "3F", 100), {}, {"parameter": "3F"}, True, "param:no-src")
    yield Case(" W|2411", "set_fan_param", (FAN, "ZZ", 1), {"src_id": REM}, {}, False, "param=ZZ")
    for pos, mode in ((0.0, "off"), (1.0, "on")):
        yield Case(" W|22F7", "set_bypass_position", (FAN,), {"bypass_position": pos, "src_id": REM}, {"bypass_mode": mode}, True, "position:0|1")
    for k in range(1, 200, 1 if not quick else 9):
        yield Case(" W|22F7", "set_bypass_position", (FAN,), {"bypass_position": k / 200, "src_id": REM}, {"bypass_position": k / 200}, True, "position:fractional")
    for mode in ("auto", "off", "on"):
        yield Case(" W|22F7", "set_bypass_position", (FAN,), {"bypass_mode": mode, "src_id": REM}, {"bypass_mode": mode}, True, "mode")
    yield Case(" W|22F7", "set_bypass_position", (FAN,), {"src_id": REM}, {"bypass_mode": "auto"}, True, "default")
    yield Case(" W|22F7", "set_bypass_position", (FAN,), {"bypass_mode": "auto"}, {"bypass_mode": "auto"}, True, "mode:no-src")
    yield Case(" W|22F7", "set_bypass_position", (FAN,), {"bypass_mode": "on", "bypass_position": 0.5, "src_id": REM}, {}, False, "mode+position")
    # bind: offers / accepts / confirms over code lists of length 0..3 and idx
    CODES = ("1260", "30C9", "2309", "22F1")
    for n in range(0, 4):
        for codes in itertools.permutations(CODES, n) if not quick else itertools.combinations(CODES, n):
            cl = list(codes)
            for oem in (None, "67"):
                exp = {"phase": "offer", "_codes": cl + (["10E0"] if oem else []) + ["1FC9"], "_src": DHW}
                yield Case(" I|1FC9", "put_bind", (" I", DHW, cl or None), {"oem_code": oem} if oem else {}, exp, n > 0, "offer" if n else "offer:no-codes")
                # an offer may also be addressed to itself explicitly, or to the broadcast address (the Orcon remotes' style)
                for dst, nm in ((DHW, "to-self"), ("63:262142", "to-broadcast")):
                    kw = {"dst_id": dst, **({"oem_code": oem} if oem else {})}
                    yield Case(" I|1FC9", "put_bind", (" I", DHW, cl or None), kw, exp, n > 0, f"offer:{nm}" if n else f"offer:{nm}:no-codes")
            for idx in (None, "00", "21", "FF"):
                if n == 0 and idx == "FF":
                    continue  # a code-less confirm carries 00 or 21 only
                kw = {"dst_id": DHW}
                if idx is not None:
                    kw["idx"] = idx
                exp = {"phase": "accept", "_codes": cl, "_src": CTL, "_bidx": idx or "00"}
                yield Case(" W|1FC9", "put_bind", (" W", CTL, cl or None), kw, exp, n > 0, "accept" if n else "accept:no-codes")
                kw = {"dst_id": CTL}
                if idx is not None:
                    kw["idx"] = idx
                exp = {"phase": "confirm", "_codes": cl[:1], "_src": DHW, "_bidx": idx or "00"}
                yield Case(" I|1FC9", "put_bind", (" I", DHW, cl or None), kw, exp, True, "confirm" if n else "confirm:no-codes")
    yield Case(" W|1FC9", "put_bind", (" W", CTL, ["10A0"]), {}, {}, False, "accept:no-dst")
    yield Case(" I|1FC9", "put_bind", ("RQ", CTL, ["10A0"]), {"dst_id": DHW}, {}, False, "verb=RQ")


def close(a, b) -> bool:
    if isinstance(a, str) and isinstance(b, str) and len(a) == 19 and a[10:11] == "T" and b[10:11] == "T":
        try:  # date-times: equal to wire resolution (1 minute for 'until', exact when seconds are carried)
            return abs((dt.fromisoformat(a) - dt.fromisoformat(b)).total_seconds()) < 60 and (b[-2:] != "00" or a[-2:] == "00")
        except ValueError:
            return a == b
    if a is None or b is None or isinstance(a, (str, bool)) or isinstance(b, (str, bool)):
        return a == b or (a is None and b is None)
    try:
        return abs(float(a) - float(b)) < 1e-9
    except (TypeError, ValueError):
        return a == b


def evaluate(c: Case):
    """-> list of (key, what)."""
    from ramses_tx.command import CODE_API_MAP
    from ramses_tx.message import Message

    tag = f"{c.fn}[{c.shape}]"
    call = f"{c.fn}({', '.join(map(repr, c.args))}{', ' if c.kw else ''}{', '.join(f'{k}={v!r}' for k, v in c.kw.items())})"
    fn = CODE_API_MAP[c.api]
    assert fn.__name__ == c.fn, (fn.__name__, c.fn)
    try:
        cmd = fn(*c.args, **c.kw)
    except Exception as e:  # noqa: BLE001
        if c.ok:
            return [(f"C03:{tag}:in-domain-refused:{type(e).__name__}", f"{call} raised {type(e).__name__}: {e}")]
        return []
    out = []
    if c.ok and f"{cmd.verb}|{cmd.code}" != c.api:
        out.append((f"C03:{tag}:wrong-verb-code", f"{call} is registered as {c.api!r} but built {cmd.verb}|{cmd.code}: {cmd}"))
    if c.ok:
        # the decoder first meets the same code and payload under every OTHER verb (traffic of other devices: mostly rejected there) -
        # its verdict on the constructor's own frame must not depend on that history
        from ramses_tx.command import Command as _Cmd

        for v2 in ("RQ", "RP", " I", " W"):
            if v2 != cmd.verb:
                try:
                    Message._from_cmd(_Cmd(v2 + str(cmd)[2:]))
                except Exception:  # noqa: BLE001
                    pass
    try:
        msg = Message._from_cmd(cmd)
        pay = msg.payload
    except Exception as e:  # noqa: BLE001
        out.append((f"C03:{tag}:{'decoder-rejects' if c.ok else 'out-of-domain-accepted,decoder-rejects'}:{type(e).__name__}", f"{call} built {cmd} which the library's decoder rejects: {type(e).__name__}: {str(e)[:150]}"))
        return out
    # decoded values carry what was passed
    p = pay if isinstance(pay, dict) else {}
    for k, want in c.expect.items():
        if k == "_idx":
            got = cmd.payload[:2]
            w = want if isinstance(want, str) and len(want) == 2 else (f"{want:02X}" if isinstance(want, int) and 0 <= want < 256 else None)
            good = w is not None and got == w
        elif k == "_codes":
            got = [b[1] for b in p.get("bindings", []) if len(b) > 1]
            good = got == list(want)
        elif k == "_src":
            got = {b[2] for b in p.get("bindings", []) if len(b) > 2}
            good = got <= {want}
        elif k == "_bidx":
            got = {b[0] for b in p.get("bindings", [])}
            good = (got <= {want}) if p.get("bindings") and isinstance(p["bindings"][0], list) and len(p["bindings"][0]) == 3 else True
        elif want is SKIP or (want is None and k not in p):
            continue
        else:
            got = p.get(k, "<absent>")
            good = close(got, want)
        if not good:
            out.append(
                (
                    f"C03:{tag}:{'value-not-carried' if c.ok else 'out-of-domain-accepted,other-value'}:{k}",
                    f"{call} built {cmd}; decoded {k}={got!r}, passed {want!r}",
                )
            )
    return out


def shard(arg) -> E.Tally:
    i, n, quick = arg
    logcap.silence_all()
    t = E.Tally()
    seen = set()
    for j, c in enumerate(cases(quick)):
        if j % n != i:
            continue
        t.n += 1
        t.by[c.fn] += 1
        t.by["in-domain" if c.ok else "out-of-domain"] += 1
        for key, what in evaluate(c):
            t.bad(key, what, {"j": j, "quick": quick, "fn": c.fn})
        sig = (c.fn, c.shape, c.ok)
        if sig not in seen:
            seen.add(sig)
        if j % 997 == 0:
            t.sample(f"{c.fn}{c.args}{c.kw} -> expect {c.expect} ({'in' if c.ok else 'out of'} domain)")
    t.nontrivial = t.n  # every case is a distinct call (the generators never repeat an argument tuple)
    return t


def run(ctx) -> None:
    n = 16
    total = E.pmap(shard, [(i, n, ctx.quick) for i in range(n)], ctx.seed)
    E.report(
        ctx,
        total,
        rule="per-constructor domain descriptions (checks/c03_builders.py:cases): full product of in-domain argument lists, complete 0.01 sweeps of "
        "temperature/setpoint arguments, all 256 OpenTherm ids, all fragment number/count pairs 0..16, bind code lists of length 0..3 x idx; "
        "plus out-of-domain values per argument. distinct = distinct (constructor, argument tuple)",
        exhaustive=True,
        constructors=len({k for k in total.by if k not in ("in-domain", "out-of-domain")}),
    )
    ctx.assumptions += [
        "domains are taken from the constructors' own range checks/docstrings and the wire format (listed in the check source)",
        "decoded payload keys carry the constructor's argument names (the convention the repo's own API tests use)",
    ]


def replay(rep: dict):
    logcap.silence_all()
    for j, c in enumerate(cases(rep["quick"])):
        if j == rep["j"]:
            return evaluate(c)
    return []
