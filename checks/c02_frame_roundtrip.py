"""C02 - frame text round-trips: parse then print is the identity, through the packet log too (E3)."""

from __future__ import annotations

import itertools
import logging
import os
import tempfile
from datetime import datetime as dt

from mc import enum as E
from mc import logcap, rxworld

PROPERTY = "C02"
LEVEL = "exploration"

VERBS = (" I", "RQ", "RP", " W")
SEQNS = ("---", "000", "001", "127", "255")
TYPES = ("00", "01", "04", "18", "30", "63")
CODES = ("0004", "000A", "0404", "0418", "1F09", "1FC9", "2309", "30C9", "3150", "3220", "31DA", "7FFF", "0000", "7FFE", "FFFF")
NON, ALL = "--:------", "63:262142"
DTM = dt(2024, 2, 29, 12, 5, 30, 123456)


def payload(n: int, fill: int) -> str:
    if fill == 0:
        return "00" * n
    if fill == 1:
        return "FF" * n
    return "".join(f"{(i * 7 + 1) % 256:02X}" for i in range(n))


def addr_sets(ta: str, tb: str):
    """The three legal address-set shapes for a (src type, dst type) pair -> (a0, a1, a2, src, dst)."""
    a, b = f"{ta}:000001", f"{tb}:262143"
    if a != ALL:
        yield a, NON, a, a, a  # src, --, src (broadcast from self)
        if b != a:
            yield a, NON, b, a, b  # src, --, dst
            yield a, b, NON, a, b  # src, dst, --
    if a not in (ALL,):
        yield NON, NON, a, a, NON  # --, --, src


def frame(verb, seqn, a0, a1, a2, code, pl) -> str:
    return f"{verb} {seqn} {a0} {a1} {a2} {code} {len(pl) // 2:03d} {pl}"


def gen_frames(quick: bool):
    """(frame, fields) for the product + the single-dimension sweeps."""
    lens = list(range(1, 49))
    for verb in VERBS:
        for seqn in SEQNS if not quick else ("---", "000", "255"):
            for ta, tb in itertools.product(TYPES, TYPES) if not quick else (("01", "04"), ("18", "01"), ("04", "63"), ("30", "18"), ("00", "01"), ("63", "01")):
                if f"{ta}:000001" == ALL:
                    continue
                for a0, a1, a2, src, dst in addr_sets(ta, tb):
                    for code in CODES if not quick else ("0004", "30C9", "3220", "7FFF", "0000", "FFFF"):
                        for n in lens:
                            for fill in (0, 1, 2):
                                if quick and fill == 1 and n % 4:
                                    continue
                                pl = payload(n, fill)
                                yield frame(verb, seqn, a0, a1, a2, code, pl), (verb, seqn, a0, a1, a2, code, n, pl, src, dst)
    # single-dimension sweeps
    from ramses_tx.ramses import CODES_SCHEMA

    for t in range(64):  # every device type in every address position
        tt = f"{t:02d}"
        for a0, a1, a2, src, dst in list(addr_sets(tt, "01")) + list(addr_sets("01", tt)):
            yield frame(" I", "---", a0, a1, a2, "7FFF", "00"), (" I", "---", a0, a1, a2, "7FFF", 1, "00", src, dst)
    for code in sorted(CODES_SCHEMA):
        yield frame("RP", "---", "01:145038", "18:000730", NON, code, "0011"), ("RP", "---", "01:145038", "18:000730", NON, code, 2, "0011", "01:145038", "18:000730")
    for s in range(256):
        yield frame(" I", f"{s:03d}", NON, NON, "12:126457", "7FFF", "00"), (" I", f"{s:03d}", NON, NON, "12:126457", "7FFF", 1, "00", "12:126457", NON)
    for num in ("000000", "000001", "262142", "262143"):
        for t in ("01", "18", "63"):
            a = f"{t}:{num}"
            if a == ALL:
                continue
            yield frame("RQ", "---", "18:000730", a, NON, "7FFF", "00"), ("RQ", "---", "18:000730", a, NON, "7FFF", 1, "00", "18:000730", a)


def check_frame(t: E.Tally, fr: str, f) -> None:
    from ramses_tx import exceptions as exc
    from ramses_tx.command import Command
    from ramses_tx.packet import Packet

    verb, seqn, a0, a1, a2, code, n, pl, src, dst = f

    def fields_ok(x, what):
        bad = []
        if x.verb != verb:
            bad.append("verb")
        if x.seqn != seqn:
            bad.append("seqn")
        if x.code != code:
            bad.append("code")
        if x.payload != pl:
            bad.append("payload")
        if int(x.len_) != n or int(x.len_) * 2 != len(x.payload):
            bad.append("len")
        if tuple(a.id for a in x._addrs) != (a0, a1, a2):
            bad.append("addrs")
        if x.src.id != src or x.dst.id != dst:
            bad.append("src/dst")
        if bad:
            t.bad(f"C02:{what}:fields-not-preserved:{'+'.join(bad)}", f"{what}({fr!r}): {bad} differ", {"frame": fr})

    # as a command
    t.n += 1
    try:
        cmd = Command(fr)
    except exc.CommandInvalid as e:
        t.bad("C02:command:valid-frame-rejected", f"Command({fr!r}) raised CommandInvalid: {e}", {"frame": fr})
        cmd = None
    except Exception as e:  # noqa: BLE001
        t.bad(f"C02:command:raises:{type(e).__name__}", f"Command({fr!r}) raised {type(e).__name__}: {e}", {"frame": fr})
        cmd = None
    if cmd is not None:
        if str(cmd) != fr or cmd._frame != fr:
            t.bad("C02:command:print-differs", f"str(Command({fr!r})) = {str(cmd)!r}", {"frame": fr})
        fields_ok(cmd, "command")
        # rebuilt from its own fields (the generic constructor; the sequence number as text and as a number): the same frame
        for sq in (seqn, None) if seqn == "---" else (seqn, int(seqn)):
            try:
                c3 = Command._from_attrs(verb, code, pl, addr0=a0, addr1=a1, addr2=a2, seqn=sq)
                if str(c3) != fr:
                    t.bad(f"C02:from_attrs:print-differs:seqn-as-{type(sq).__name__}", f"_from_attrs(..., seqn={sq!r}) of the fields of {fr!r} prints {str(c3)!r}", {"frame": fr})
            except Exception as e:  # noqa: BLE001
                t.bad(f"C02:from_attrs:raises:{type(e).__name__}", f"_from_attrs(..., seqn={sq!r}) of the fields of {fr!r}: {type(e).__name__}: {e}", {"frame": fr})
        try:
            rp = repr(cmd)
        except exc.PacketInvalid:
            rp = None  # the header cannot be computed for this code/payload (semantically invalid payload)
        try:
            if rp is None:
                raise StopIteration
            c2 = Command(rp[4:].split(" # ")[0])
            if c2 != cmd or str(c2) != fr:
                t.bad("C02:command:repr-does-not-parse-back", f"{rp!r}", {"frame": fr})
        except StopIteration:
            pass
        except Exception as e:  # noqa: BLE001
            t.bad("C02:command:repr-does-not-parse-back", f"{rp!r}: {e}", {"frame": fr})
    # as a packet, with each RSSI form
    for rssi in ("045", "000", "---", "..."):
        t.n += 1
        try:
            pkt = Packet(DTM, f"{rssi} {fr}")
        except exc.PacketInvalid:
            continue  # not an *accepted* packet (reception totality is C01's business)
        except Exception as e:  # noqa: BLE001
            t.bad(f"C02:packet:raises:{type(e).__name__}", f"Packet({rssi} {fr!r}) raised {type(e).__name__}: {str(e)[:100]}", {"frame": fr})
            break
        if str(pkt) != fr or pkt._rssi != rssi or pkt.dtm != DTM:
            t.bad("C02:packet:print-differs", f"str(Packet('{rssi} {fr}')) = {str(pkt)!r} rssi={pkt._rssi}", {"frame": fr})
        fields_ok(pkt, "packet")
        if rssi == "045":
            rp = repr(pkt)
            try:
                p2 = Packet.from_file(rp[:26], rp[27:])
                if p2 != pkt or p2.dtm != DTM or str(p2) != fr:
                    t.bad("C02:packet:repr-does-not-parse-back", f"{rp!r}", {"frame": fr})
            except Exception as e:  # noqa: BLE001
                t.bad("C02:packet:repr-does-not-parse-back", f"{rp!r}: {type(e).__name__} {e}", {"frame": fr})
            for annot, comment in ((" # a comment", "a comment"), (" < a hint", ""), (" < hint # c * x", "c * x"), (" # c < x", "c < x")):
                try:
                    p3 = Packet.from_port(DTM, f"{rssi} {fr}{annot}")
                    if p3 != pkt or str(p3) != fr or p3.comment != comment:
                        t.bad("C02:packet:annotation-changes-packet", f"{fr + annot!r} -> {str(p3)!r} comment={p3.comment!r}", {"frame": fr})
                except exc.PacketInvalid:
                    t.bad("C02:packet:annotation-changes-packet", f"{fr + annot!r} rejected", {"frame": fr})
    # from the CLI short form
    t.n += 1
    forms = [f"{verb} {seqn} {a0} {a1} {a2} {code} {pl}", f"{verb.strip().lower()} {seqn} {a0} {a1} {a2} {code} {pl.lower()}"]
    if seqn == "---" and a0 != NON:
        forms.append(f"{verb} {a0} {a1} {a2} {code} {pl}")
    if seqn == "---" and a0 == "18:000730" and a2 == NON and verb != " I":
        forms.append(f"{verb} {a1} {code} {pl}")
    if seqn == "---" and a0 != NON and a1 == NON and a2 == a0:
        forms.append(f"{verb} {a0} {a0} {code} {pl}")
    if seqn == "---" and a0 != NON and a1 not in (NON, a0) and a2 == NON:
        forms.append(f"{verb} {a0} {a1} {code} {pl}")
    for form in forms:
        try:
            c3 = Command.from_cli(form)
            if str(c3) != fr:
                t.bad("C02:from_cli:print-differs" + (":long-payload" if n > 24 else ""), f"from_cli({form!r}) prints {str(c3)!r}, want {fr!r}", {"frame": fr})
        except Exception as e:  # noqa: BLE001
            t.bad(f"C02:from_cli:raises:{type(e).__name__}" + (":long-payload" if n > 24 else ""), f"from_cli({form!r}) raised {type(e).__name__}: {str(e)[:120]}", {"frame": fr})


def shard_frames(arg) -> E.Tally:
    i, n, quick = arg
    logcap.silence_all()
    t = E.Tally()
    for j, (fr, f) in enumerate(gen_frames(quick)):
        if j % n != i:
            continue
        check_frame(t, fr, f)
        t.nontrivial += 1
        if j % 50021 == 0:
            t.sample(fr)
    t.by["frames"] = t.nontrivial
    return t


# ---------------------------------------------------------------------------------------------
# through the packet log


STAMPS = [
    dt(2024, 2, 29, 12, 5, 30, 0),
    dt(2024, 2, 29, 12, 5, 30, 1),
    dt(2024, 2, 29, 12, 5, 30, 499999),
    dt(2024, 2, 29, 12, 5, 30, 500000),
    dt(2024, 2, 29, 23, 59, 59, 999999),
    dt(2000, 1, 1, 0, 0, 0, 0),
    dt(2099, 12, 31, 23, 59, 59, 999999),
    dt(2023, 3, 26, 1, 30, 0, 123456),
]
ANNOTS = ["", " # evofw3 says hi", " * Checksum error", " < a hint", " < hint * Length error # c", " # c1 # c2"]


def shard_log(arg) -> E.Tally:
    """Write a live session to a real packet log with the library's logger, replay it with the real FileTransport."""
    i, n, quick = arg
    from ramses_tx import exceptions as exc
    from ramses_tx import packet as PK
    from ramses_tx.logger import set_pkt_logging
    from ramses_tx.packet import Packet

    logcap.install()
    logging.disable(logging.NOTSET)  # a frames shard may have silenced logging in this worker
    t = E.Tally()
    frames = [fr for j, (fr, f) in enumerate(gen_frames(True)) if j % 389 == 0]
    frames = frames[: 2000 if not quick else 600]
    mine = [fr for j, fr in enumerate(frames) if j % n == i]
    fd, path = tempfile.mkstemp(prefix="verif_pktlog_", suffix=".log")
    os.close(fd)
    try:
        set_pkt_logging(PK.PKT_LOGGER, file_name=path)
        live = []  # what the live session accepted
        k = 0
        for fi, fr in enumerate(mine):
            if fi and fi % 40 == 0:  # the packet log is configured again for the same file in mid-session (every new Gateway does that)
                set_pkt_logging(PK.PKT_LOGGER, file_name=path)
            for stamp in STAMPS:
                annot = ANNOTS[k % len(ANNOTS)]
                rssi = ("045", "000", "---", "...")[k % 4]
                k += 1
                t.n += 1
                # a recorded session also holds repeats (RF devices send frames two or three times; a remote gateway's millisecond
                # stamps can coincide): the very same line twice in a row, and another frame under the same timestamp
                lines = [f"{rssi} {fr}{annot}"]
                if k % 5 == 0:
                    lines.append(lines[0])
                if k % 7 == 0:
                    lines.append(f"{rssi} {mine[(k * 3) % len(mine)]}")
                for ln in lines:
                    try:
                        p = Packet.from_port(stamp, ln)
                        live.append(p)
                    except exc.PacketInvalid:
                        pass
                    except AssertionError:
                        pass  # C01's finding, not a log matter
        for h in list(PK.PKT_LOGGER.handlers):
            h.flush()
            h.close()
            PK.PKT_LOGGER.removeHandler(h)
        PK.PKT_LOGGER.setLevel(logging.CRITICAL)
        text = open(path).read()
    finally:
        os.unlink(path)
    got, lost, excs, _ = rxworld.replay_source(text)
    t.nontrivial = len(live)
    t.by["logged_packets"] = len(live)
    t.by["log_lines"] = text.count("\n")
    t.sample(text.splitlines()[1] if text.count("\n") > 1 else text)
    if excs or lost != [None]:
        t.bad("C02:log:replay-aborted", f"replay ended with {lost} / loop exceptions {excs[:2]}", {"log_shard": [i, n, quick]})
    if len(got) != len(live):
        t.bad("C02:log:count-differs", f"{len(live)} packets accepted live, {len(got)} delivered on replay", {"log_shard": [i, n, quick]})
    for a, b in zip(live, got):
        if a != b or str(a) != str(b):
            t.bad("C02:log:packet-differs", f"live {str(a)!r} replayed {str(b)!r}", {"log_shard": [i, n, quick]})
            break
        if a.dtm != b.dtm:
            t.bad("C02:log:timestamp-differs", f"live {a.dtm.isoformat()} replayed {b.dtm.isoformat()} for {str(a)!r}", {"log_shard": [i, n, quick]})
            break
        if a._rssi != b._rssi or a.comment != b.comment:
            t.bad("C02:log:rssi-or-comment-differs", f"live ({a._rssi!r},{a.comment!r}) replayed ({b._rssi!r},{b.comment!r})", {"log_shard": [i, n, quick]})
            break
    return t


def _dispatch(job) -> E.Tally:
    return globals()[job[0]](job[1])


def run(ctx) -> None:
    n = 32
    jobs = [("shard_frames", (i, n, ctx.quick)) for i in range(n)] + [("shard_log", (i, 8, ctx.quick)) for i in range(8)]
    total = E.pmap(_dispatch, jobs, ctx.seed)
    E.report(
        ctx,
        total,
        rule="product verb(4) x seqn x address shape(3+1) x type pairs x codes x every payload length 1..48 x 3 fills, plus sweeps of all 64 device "
        "types in each position, all known codes, all 256 seqn; each frame parsed as Command (and rebuilt from its fields with the generic constructor, sequence number as text and as a number), as Packet under 4 RSSI forms and 4 annotations, via "
        "repr, and via every applicable CLI short form; a slice x 8 timestamps written by the library's packet logger to a real file and replayed "
        "by the real FileTransport. distinct = distinct frame text",
        exhaustive=True,
    )
    ctx.assumptions += ["TZ=UTC (the packet logger formats record.created in local time)", "frames rejected with PacketInvalid are outside this property (C01 covers reception totality)"]


def replay(rep: dict):
    logcap.silence_all()
    if "log_shard" in rep:
        t = shard_log(tuple(rep["log_shard"]))
    else:
        t = E.Tally()
        fr = rep["frame"]
        p = fr.split(" ")
        if fr.startswith(" "):
            p = [" " + p[1]] + p[2:]
        verb, seqn, a0, a1, a2, code, ln, pl = p
        devs = [a for a in (a0, a1, a2) if a != NON]
        src = devs[0]
        dst = devs[1] if len(devs) > 1 else NON
        if src == dst:
            pass
        check_frame(t, fr, (verb, seqn, a0, a1, a2, code, int(ln), pl, src, dst if a0 != NON or True else NON))
    return [(k, v["what"]) for k, v in t.viol.items()]
