"""Oracles (written from the statements of C07, C08, C09) and the shared driver for world `qos`."""

from __future__ import annotations

import itertools
import multiprocessing as mp

from mc import explore as X
from mc import logcap
from mc import qosworld as Q

TOL = 0.011  # up to ~10 coincidences of <= 1 ms loop lateness introduced by the explorer itself
BASE = 0.5
CAP = 20.0

ENV = ("drop", "dup", "reorder", "late", "jb", "ready_deliver", "adv_ready", "adv_late")
FAULT = ("wfail", "disc", "pause")


def wire(frame: str, gwy: str) -> str:
    return frame.replace("18:000730", gwy)


def allowed_packets(frame: str, gwy: str) -> set[str]:
    """The packets that belong to a command: its echo (with or without the gateway's real id) and the
    reply of the addressed device with the same code and context.  A reply whose *destination* is another
    gateway (the answer to somebody else's identical request) carries the same device/code/context and is
    accepted (the statement forbids other code / verb / responding device / context, not another dst)."""
    s = {frame.strip(), wire(frame, gwy).strip()}
    rp = Q.reply_for(frame, gwy)
    if rp:
        s.add(rp.strip())
        s.add(rp.replace(gwy, "18:999999").strip())
    return s


def classify(frame: str, given: str, gwy: str) -> str:
    """How does the packet a caller was given relate to its command? 'echo' / 'reply' / what differs."""
    if given.strip() in allowed_packets(frame, gwy):
        return "echo" if given.strip() in (frame.strip(), wire(frame, gwy).strip()) else "reply"
    g = given.split()
    for ref, name in ((wire(frame, gwy), "echo"), (Q.reply_for(frame, gwy) or "", "reply")):
        r = ref.split()
        if len(r) != len(g) or not r:
            continue
        fields = ("verb", "seqn", "src", "dst", "addr3", "code", "len", "payload")
        diff = [fields[i] for i in range(len(r)) if r[i] != g[i]]
        if len(diff) <= 2:
            return f"{name}-but-other-{'+'.join(diff)}"
    return "unrelated"


# -------------------------------------------------------------------------------------------------
def oracle_c07(obs: dict, params: dict) -> list[tuple[str, str]]:
    v = []
    gwy = params.get("gwy_id", Q.GWY)
    if obs["cap_hit"]:
        # the harness's step horizon was reached (the code under test polls or spins). Conclusive only if, by the virtual time reached, a
        # caller is already overdue; otherwise the execution is INCONCLUSIVE (counted under caps_hit, never reported as a violation)
        overdue = [c for c in obs["callers"] if c is not None and c["end_t"] is None and obs["end_t"] - c["start_t"] > min(params["callers"][c["i"]].get("timeout", 20.0) or 20.0, CAP) + 10.0 + TOL]
        if overdue:
            c = overdue[0]
            return [(f"C07:hang:{params['callers'][c['i']]['cmd']}:step-cap", f"caller {c['i']} ({c['frame']}) still unfinished {obs['end_t'] - c['start_t']:.2f} s after its call when the step cap was reached")]
        return [("C07:INCONCLUSIVE:step-cap", "step cap reached before any caller was overdue")]
    alerts = {a["frame"]: a for a in obs["alerts"]}
    for c in obs["callers"]:
        if c is None:
            continue
        spec = params["callers"][c["i"]]
        if c["res"] is None or c["end_t"] is None:
            v.append((f"C07:hang:{spec['cmd']}", f"caller {c['i']} ({c['frame']}) never finished; final={obs['final']}"))
            continue
        timeout = min(spec.get("timeout", 20.0) or 20.0, CAP)
        t_imp = 0.0
        a = alerts.get(c["frame"])
        if a is not None and a["t1"] is not None:
            t_imp = a["t1"] - c["start_t"]
        dur = c["end_t"] - c["start_t"]
        if dur > timeout + t_imp + TOL:
            v.append(
                (
                    f"C07:late:{spec['cmd']}",
                    f"caller {c['i']} finished after {dur:.4f}s > timeout {timeout}+notice {t_imp:.4f}",
                )
            )
        r = c["res"]
        if r[0] == "pkt":
            kind = classify(c["frame"], r[1], gwy)
            if kind not in ("echo", "reply"):
                v.append((f"C07:wrong-packet:{kind}", f"caller {c['i']} for {c['frame']!r} was given {r[1]!r}"))
            elif (
                spec.get("wfr") is True
                and (params.get("qos_mode") is False or (params.get("qos_mode") is None and c["frame"].split()[5] in ("0006", "0404", "0418", "1FC9")))
                and Q.reply_for(c["frame"], gwy)
                and r[1].strip() in (c["frame"].strip(), wire(c["frame"], gwy).strip())
            ):
                v.append((f"C07:echo-not-reply:{spec['cmd']}", f"reply was awaited but caller {c['i']} got {r[1]!r}"))
        elif r[0] == "exc":
            if not r[2]:
                v.append((f"C07:bad-exception:{r[1]}", f"caller {c['i']} raised {r[1]}: {r[3]} (not a ProtocolError)"))
        else:
            v.append((f"C07:bad-outcome:{r[0]}", f"caller {c['i']}: {r}"))
    return v


# -------------------------------------------------------------------------------------------------
def oracle_c08(obs: dict, params: dict) -> list[tuple[str, str]]:
    v = []
    if obs["cap_hit"]:
        return [("C08:INCONCLUSIVE:step-cap", "step cap reached")]
    callers = [c for c in obs["callers"] if c is not None]
    frames = [c["frame"] for c in callers]
    if len(set(frames)) != len(frames):
        # attribution by frame needs distinct frames. One thing can still be judged when nothing ever comes back and nothing else goes
        # wrong: the caller that is served first is not given up on before its own time-out or the end of its own retry budget - whatever
        # becomes of another caller queued behind it with the very same frame
        env = params.get("env", {})
        if env.get("echo") is False and env.get("reply") is False and not obs["faults"] and callers:
            c0 = min(callers, key=lambda c: c["start_seq"])
            spec = params["callers"][c0["i"]]
            limit = 1 + min(spec.get("retries", 3), 3)
            full = BASE * (2**limit - 1)
            timeout = min(spec.get("timeout", 20.0) or 20.0, CAP)
            r = c0["res"]
            if r is not None and r[0] == "exc" and c0["end_t"] is not None and c0["end_t"] - c0["start_t"] < min(timeout, full) - TOL:
                v.append((f"C08:under-budget:{spec['cmd']}:same-frame-queued-behind", f"{c0['frame']!r} (first caller) was given up after {c0['end_t'] - c0['start_t']:.3f}s < min(timeout {timeout}, budget {full}): {r}; {len(obs['writes'])} transmissions in all"))
        return v
    by_frame = {c["frame"]: c for c in callers}
    writes: dict[str, list] = {f: [] for f in frames}
    for w in obs["writes"]:
        if w[2] in writes:
            writes[w[2]].append(w)
    faults = set(obs["faults"])
    deliv = obs["deliveries"]
    for f, ws in writes.items():
        c = by_frame[f]
        spec = params["callers"][c["i"]]
        limit = 1 + min(spec.get("retries", 3), 3)
        name = spec["cmd"]
        # (a) never more than the budget
        if len(ws) > limit:
            v.append((f"C08:over-budget:{name}", f"{f!r} transmitted {len(ws)}x > {limit}: t={[round(w[1], 3) for w in ws]}"))
        # (a') no fewer, if the timeout allows and nothing else ended it
        r = c["res"]
        if r is not None and r[0] == "exc" and ws and len(ws) < limit and not faults:
            timeout = min(spec.get("timeout", 20.0) or 20.0, CAP)
            dur = c["end_t"] - c["start_t"]
            if dur < timeout - TOL:
                v.append(
                    (
                        f"C08:under-budget:{name}",
                        f"{f!r} gave up after {len(ws)}/{limit} transmissions at {dur:.3f}s < timeout {timeout}: {r}",
                    )
                )
        # (c) back-off
        times = [w[1] for w in ws]
        related = [d for d in deliv if d[3].strip() in allowed_packets(f, params.get("gwy_id", Q.GWY))]
        for k in range(len(ws) - 1):
            gap = times[k + 1] - times[k]
            if gap < BASE - TOL:
                v.append((f"C08:retry-too-soon:{name}", f"{f!r} retransmitted after {gap:.4f}s < {BASE}: {[round(t, 3) for t in times]}"))
            if gap > 16 * BASE + TOL:
                v.append((f"C08:retry-too-late:{name}", f"{f!r} retransmitted after {gap:.4f}s: {[round(t, 3) for t in times]}"))
        for k in range(len(ws) - 2):
            s0, s2 = ws[k][0], ws[k + 2][0]
            if any(s0 < d[0] < s2 for d in related):
                continue  # something came back for one of the two attempts: only the bounds apply
            g1, g2 = times[k + 1] - times[k], times[k + 2] - times[k + 1]
            want = min(2 * g1, 8 * BASE)
            if abs(g2 - want) > TOL:
                v.append(
                    (
                        f"C08:no-doubling:{name}",
                        f"{f!r}: unanswered attempts at {[round(t, 3) for t in times]}: wait {g2:.3f} after {g1:.3f}, want {want:.3f}",
                    )
                )
        # (d) nothing after the caller was answered
        if c["end_seq"] is not None:
            late = [w for w in ws if w[0] > c["end_seq"]]
            if late:
                v.append(
                    (
                        f"C08:tx-after-completion:{name}",
                        f"{f!r} written at t={late[0][1]:.3f} after its caller finished at t={c['end_t']:.3f} with {c['res'][:2]}",
                    )
                )
    # (e) one in flight
    spans = []
    for f, ws in writes.items():
        if not ws:
            continue
        c = by_frame[f]
        end_b = c["end_batch"] if c["end_batch"] is not None else 10**9
        spans.append((ws[0][4], end_b, f, ws[0][1]))
    spans.sort()
    for (b0, e0, f0, _), (b1, e1, f1, t1) in zip(spans, spans[1:]):
        if b1 + 2 < e0:  # 2 iterations of slack: future resolved vs caller task resumed
            v.append((f"C08:two-in-flight", f"{f1!r} first sent at t={t1:.3f} while {f0!r} was still unanswered"))
    # (f) priority, then FIFO
    PR = {"HIGHEST": -4, "HIGH": -2, "DEFAULT": 0, "LOW": 2, "LOWEST": 4}
    first = {f: ws[0] for f, ws in writes.items() if ws}
    for fx, wx in first.items():
        cx = by_frame[fx]
        if fx in {a["frame"] for a in obs["alerts"]}:
            continue
        kx = (PR[cx["prio"]], cx["start_seq"])
        for fy in frames:
            if fy == fx:
                continue
            cy = by_frame[fy]
            if fy in {a["frame"] for a in obs["alerts"]}:
                continue
            if cy["start_batch"] + 3 >= wx[4]:
                continue  # not provably queued before X was picked
            if fy in first and first[fy][0] < wx[0]:
                continue  # already started
            if cy["end_seq"] is not None and cy["end_seq"] < wx[0]:
                continue  # no longer live
            if cy["end_batch"] is not None and cy["end_batch"] <= wx[4]:
                continue
            ky = (PR[cy["prio"]], cy["start_seq"])
            if ky < kx:
                v.append(
                    (
                        f"C08:order",
                        f"{fx!r} (prio {cx['prio']}, call #{cx['start_seq']}) started before queued {fy!r} (prio {cy['prio']}, call #{cy['start_seq']})",
                    )
                )
    return v


# -------------------------------------------------------------------------------------------------
def oracle_c09(obs: dict, params: dict) -> list[tuple[str, str]]:
    v = []
    if obs["cap_hit"]:
        if obs["end_t"] < params.get("horizon", 120.0) - 1.0:  # (virtual time still short of the horizon: the code polls - inconclusive)
            return [("C09:INCONCLUSIVE:step-cap", "step cap reached before the horizon")]
        return [("C09:livelock", f"episode did not quiesce within the step cap; final={obs['final']}")]
    if obs["deadlock"]:
        return [("C09:deadlock", obs["deadlock"])]
    fin = obs["final"]
    want = "IsInIdle" if obs["connected"] else "Inactive"
    if fin["state"] != want:
        v.append((f"C09:final-state:{fin['state']}", f"after quiescence state={fin['state']} (connected={obs['connected']}): {fin}"))
    if fin["fut"] == "pending" or fin["qsize"] or fin["timer"] or fin["lock_held"] or fin["cmd"]:
        v.append(("C09:in-flight-at-rest", f"something still in flight after quiescence: {fin}"))
    for c in obs["callers"]:
        if c is not None and c["res"] is None:
            v.append((f"C09:caller-unanswered", f"caller {c['i']} ({c['frame']}) never answered; final={fin}"))
    for e in obs["loop_exc"]:
        v.append((f"C09:loop-exception:{e[0]}:{e[2]}:{sig(e[1])}", f"unhandled in event loop: {e}"))
    for r in obs["log_exc"]:
        if r[1] == "AssertionError":
            v.append((f"C09:assert-tripped:{r[3]}:{sig(r[2])}", f"internal check tripped (logged): {r}"))
    p = obs.get("probe")
    if p is not None:
        r = p["res"]
        if obs["connected"]:
            if r[0] != "pkt" or not ("30C9 003 0A07D0" in r[1] or "30C9 001 0A" in r[1]):
                v.append((f"C09:probe-failed:{r[0]}:{r[1] if r[0] == 'exc' else ''}", f"fresh command after the episode: {r} after {p['dur']:.2f}s; {p['final']}"))
        else:
            if r[0] != "exc" or not r[2]:
                v.append((f"C09:probe-disconnected:{r[0]}", f"send while disconnected: {r}"))
        pf = p["final"]
        if r[0] in ("pkt", "exc") and (pf["fut"] == "pending" or pf["qsize"] or pf["timer"]):
            v.append(("C09:probe-left-in-flight", f"{pf}"))
    return v


def sig(msg) -> str:
    """Stable signature of an exception message: no digits, addresses or payloads."""
    import re

    m = re.sub(r"<Future[^>]*?(pending|cancelled|finished (result|exception))[^>]*>", r"<Future \1>", str(msg))
    m = re.sub(r"tx_count=\d/\d", "tx_count=n/m", m)
    m = re.sub(r"[0-9A-F]{4}\|[ A-Z]{2}\|[0-9:]+(\|[0-9A-F]+)?", "HDR", m)
    return m[:110]


ORACLES = {"C07": oracle_c07, "C08": oracle_c08, "C09": oracle_c09}


def outcome_digest(obs: dict) -> str:
    return X.digest(
        {
            "w": [(w[2], round(w[1], 4), w[3]) for w in obs["writes"]],
            "c": [None if c is None else (c["res"], c["end_t"] and round(c["end_t"], 4)) for c in obs["callers"]],
            "f": obs["final"],
            "p": obs["probe"] and obs["probe"]["res"],
            "e": obs["loop_exc"],
            "l": obs["log_exc"],
            "d": obs["deadlock"],
        }
    )


# -------------------------------------------------------------------------------------------------
# driver: one pool task = one (scenario, D) explored completely


def _task(args):
    pid, params, D, audit_every, seed = args
    logcap.install()
    oracle = ORACLES[pid]

    def run(prefix, expect):
        return Q.run(params, prefix, expect)

    def check(obs):
        return oracle(obs, params)

    X.set_job(run, check, outcome_digest)
    s = X._dfs(([], None, 0), D, audit_every, seed)
    for vv in s.violations.values():
        vv.setdefault("params", params)
    return s


def drive(ctx, pid: str, scenarios: list[tuple[dict, int]], audit_every: int = 40):
    """scenarios: [(params, D)]. Explores each completely; fills ctx."""
    tasks = [(pid, p, D, audit_every, ctx.seed) for p, D in X.rotate(scenarios, ctx.seed)]
    total = X.Summary()
    byD: dict[int, int] = {}
    with mp.get_context("fork").Pool(X.ncpu()) as pool:
        for (pid_, p, D, _, _), s in zip(tasks, pool.imap(_task, tasks, chunksize=1)):
            total.merge(s)
            byD[D] = byD.get(D, 0) + s.executions
    inconclusive = sum(n for k, n in total.vcount.items() if "INCONCLUSIVE" in k)
    ctx.vcount = {k: n for k, n in total.vcount.items() if "INCONCLUSIVE" not in k}
    for vv in sorted(total.violations.values(), key=lambda v: (v["cost"], len(v["choices"]))):
        if "INCONCLUSIVE" in vv["key"]:
            continue
        ctx.violation(vv["key"], vv["what"], {"world": "qos", "params": vv["params"], "choices": vv["choices"], "labels": vv["labels"]})
    ctx.nviol_total = total.nviol - inconclusive
    ctx.coverage["inconclusive_executions_step_cap"] = inconclusive + int(total.extra.get("slices_stopped_after_30_step_caps", 0))
    return total, byD


def replay(pid: str, rep: dict):
    logcap.install()
    ch, obs = Q.run(rep["params"], rep["choices"], None)
    return ORACLES[pid](obs, rep["params"])


def caller(cmd, **kw):
    d = {"cmd": cmd, "wfr": True, "retries": 3, "timeout": 20.0, "prio": "DEFAULT", "start": "t0"}
    d.update(kw)
    return d


def product(**axes):
    keys = list(axes)
    for vals in itertools.product(*(axes[k] for k in keys)):
        yield dict(zip(keys, vals))


# --- explicit-state search (state hashing): every schedule with ANY number of deviations of the given kinds ---------------
def _canon_digest(w) -> bytes:
    import hashlib

    return hashlib.blake2b(repr(Q.canon(w)).encode(), digest_size=16).digest()


def inflight_viol(pid: str, obs: dict, params: dict) -> list:
    """What can be judged on a state that is still in flight: C09 - nothing may have gone wrong so far; C07 - every caller that HAS
    finished is judged now (in time? own packet? error family?), because the canonical state that histories are merged on records that
    a caller ended and with what, not when - so lateness must be caught on the transition on which the caller ends."""
    viol = []
    if pid == "C07":
        viol = [x for x in oracle_c07(obs, params) if not x[0].startswith("C07:hang")]
    else:
        for e in obs["loop_exc"]:
            viol.append((f"{pid}:loop-exception:{e[0]}:{e[2]}:{sig(e[1])}", f"unhandled in event loop: {e}"))
        for r in obs["log_exc"]:
            if r[1] == "AssertionError":
                viol.append((f"{pid}:assert-tripped:{r[3]}:{sig(r[2])}", f"internal check tripped (logged): {r}"))
    if obs["deadlock"]:
        viol.append((f"{pid}:deadlock", obs["deadlock"]))
    if obs["cap_hit"]:
        viol.append((f"{pid}:INCONCLUSIVE:step-cap", "step cap"))
    return viol


def _bfs_expand(args):
    """Rebuild the state reached by history h (a fresh real world, the script replayed) and take every enabled action from it."""
    pid, params, h = args
    import warnings

    warnings.filterwarnings("ignore", category=RuntimeWarning)  # (worlds are abandoned in mid-flight: 'coroutine was never awaited')
    logcap.install()
    out = []
    w, acts = Q.run_script(params, h)
    Q.finish_script(w, False)
    for lab, _c in acts or ():
        h2 = tuple(h) + (tuple(lab),)
        w2, a2 = Q.run_script(params, h2)
        dig = _canon_digest(w2)
        terminal = a2 is None
        obs = Q.finish_script(w2, terminal)
        viol = ORACLES[pid](obs, params) if terminal else inflight_viol(pid, obs, params)
        summary = None
        if terminal:
            summary = (obs["final"]["state"], tuple(None if c is None else (c["res"][0] if c["res"] else None) for c in obs["callers"]), obs["probe"]["res"][0] if obs.get("probe") else None)
        out.append((h2, dig, terminal, viol, summary))
    return out


def _bfs_audit(args):
    """Two histories that were merged (same canonical state): run both on with the default schedule - same outcome?"""
    params, h1, h2 = args
    import warnings

    warnings.filterwarnings("ignore", category=RuntimeWarning)
    logcap.install()
    res = []
    for h in (h1, h2):
        hh = tuple(h)
        for _ in range(400):
            w, acts = Q.run_script(params, hh)
            if acts is None:
                obs = Q.finish_script(w, True)
                res.append((obs["final"], [None if c is None else (c["res"][0] if c["res"] else None) for c in obs["callers"]], obs["probe"]["res"][0] if obs.get("probe") else None, len(obs["writes"]) - sum(1 for x in hh if x[0] == "zz")))
                break
            Q.finish_script(w, False)
            hh = hh + (tuple(acts[0][0]),)
        else:
            res.append("no-end")
    a, b = res
    same = a != "no-end" and b != "no-end" and a[:3] == b[:3]
    return same, (h1, h2, a, b)


def bfs(ctx, pid: str, scenarios: list[dict], max_states: int = 400_000, audit_every: int = 97):
    """Level-synchronous parallel BFS of each scenario's state graph; states = canonical forms (mc.qosworld.canon) of the real
    world between two actions; a state is expanded by replaying its history on a fresh real PortProtocol/ProtocolContext."""
    import collections
    import warnings

    warnings.filterwarnings("ignore", category=RuntimeWarning)
    logcap.install()
    tot = collections.Counter()
    viols: dict = {}
    outcomes: set = set()
    audits = bad_audits = 0
    per = []
    with mp.get_context("fork").Pool(X.ncpu()) as pool:
        for p in scenarios:
            seen: dict = {}
            frontier = [()]
            w, acts = Q.run_script(p, ())
            seen[_canon_digest(w)] = ()
            Q.finish_script(w, False)
            depth = states = trans = term = 0
            capped = False
            merges = []
            while frontier:
                depth += 1
                nxt = []
                for out in pool.imap_unordered(_bfs_expand, [(pid, p, h) for h in frontier], chunksize=4):
                    for h2, dig, terminal, viol, summary in out:
                        trans += 1
                        for k, what in viol:
                            if "INCONCLUSIVE" in k:  # (step horizon reached while the code under test polls: the state is not expanded, the graph counts as capped)
                                capped = True
                                continue
                            e = viols.setdefault(k, {"what": what, "replay": {"world": "qos-bfs", "params": p, "hist": [list(x) for x in h2]}, "count": 0})
                            e["count"] += 1
                        if summary is not None:
                            outcomes.add(summary)
                        if dig in seen:
                            if (trans % audit_every) == 0 and not terminal and seen[dig] != h2:
                                merges.append((p, seen[dig], h2))
                            continue
                        seen[dig] = h2
                        if terminal:
                            term += 1
                        elif not viol:
                            nxt.append(h2)
                if len(seen) > max_states:
                    capped = True
                    break
                frontier = nxt
            for same, info in pool.imap_unordered(_bfs_audit, merges[:200], chunksize=2):
                audits += 1
                if not same:
                    bad_audits += 1
                    viols.setdefault(f"{pid}:HARNESS:merged-states-differ", {"what": f"two histories with the same canonical state end differently under the default schedule: {info}"[:900], "replay": {"world": "qos-bfs", "params": p, "hist": [list(x) for x in info[1]]}, "count": 0})["count"] += 1
            tot.update(states=len(seen), transitions=trans, terminal=term, capped=int(capped))
            per.append({"dev": list(p["dev"]), "callers": [c["cmd"] + "/" + str(c["timeout"]) for c in p["callers"]], "max_held": p.get("max_held"), "states": len(seen), "transitions": trans, "terminal_states": term, "depth": depth, "complete": not capped})
    return tot, viols, per, len(outcomes), audits, bad_audits


def bfs_replay(pid: str, rep: dict):
    logcap.install()
    h = tuple(tuple(x) for x in rep["hist"])
    w, acts = Q.run_script(rep["params"], h)
    terminal = acts is None
    obs = Q.finish_script(w, terminal)
    if terminal:
        return ORACLES[pid](obs, rep["params"])
    return inflight_viol(pid, obs, rep["params"])
