"""C17 - schedules survive the wire format (E3 codec sweeps + E2 permutations of fragment packets)."""

from __future__ import annotations

import itertools
from datetime import datetime as dt

from mc import enum as E
from mc import logcap

PROPERTY = "C17"
LEVEL = "exploration"

CTL = "01:145038"
GWY = "18:006402"


def S():
    import ramses_rf.system.schedule as sch

    return sch


def tod(m: int) -> str:
    return f"{m // 60:02d}:{m % 60:02d}"


def skeleton(zone: str, n_per_day: int, sp=lambda d, k: 15.0 + d + k * 0.5, t0=lambda d, k: 360 + k * 95 + d * 5) -> dict:
    """A 7-day schedule with n switchpoints per day (ordered times on the 5-minute grid)."""
    days = []
    for d in range(7):
        sps = []
        for k in range(n_per_day):
            m = min(t0(d, k) // 5 * 5, 1435 - (n_per_day - 1 - k) * 5)
            if zone == "HW":
                sps.append({"time_of_day": tod(m), "enabled": bool((d + k) % 2)})
            else:
                sps.append({"time_of_day": tod(m), "heat_setpoint": sp(d, k)})
        days.append({"day_of_week": d, "switchpoints": sps})
    return {"zone_idx": zone, "schedule": days}


def wire_zone(full: dict) -> dict:
    """What the library passes to the codec: DHW is addressed as idx 00."""
    return dict(full, zone_idx="00") if full["zone_idx"] == "HW" else full


def check_codec(t: E.Tally, full: dict, label: str, deep: bool = True) -> list[str] | None:
    sch = S()
    from ramses_tx.command import Command
    from ramses_tx.message import Message

    t.n += 1
    try:
        sch.SCH_FULL_SCHEDULE(full)
    except Exception:  # noqa: BLE001
        t.by["rejected-by-validator"] += 1
        return None
    rep = {"schedule": full, "label": label}
    try:
        frags = sch.full_sched_to_fragz(wire_zone(full))
        back = sch.fragz_to_full_sched(frags)
    except Exception as e:  # noqa: BLE001
        t.bad(f"C17:codec-raises:{type(e).__name__}", f"{label}: {type(e).__name__}: {e}", rep)
        return None
    if back != wire_zone(full):
        diff = _first_diff(wire_zone(full), back)
        t.bad(f"C17:codec-not-identity:{diff[0]}", f"{label}: {diff[1]}", rep)
    for num, fr in enumerate(frags, 1):
        if len(fr) > 82 or len(fr) % 2:
            t.bad("C17:fragment-too-long", f"{label}: fragment {num} has {len(fr) // 2} bytes", rep)
    if deep:
        zidx = full["zone_idx"]
        for num, fr in enumerate(frags, 1):
            try:
                cmd = Command.set_schedule_fragment(CTL, zidx, num, len(frags), fr)
                p = Message._from_cmd(cmd).payload
            except Exception as e:  # noqa: BLE001
                t.bad(f"C17:write-command-rejected:{type(e).__name__}", f"{label}: fragment {num}/{len(frags)} ({len(fr) // 2} bytes): {type(e).__name__}: {str(e)[:120]}", rep)
                continue
            if p.get("frag_number") != num or p.get("total_frags") != len(frags) or p.get("fragment") != fr or p.get("frag_length") != len(fr) // 2:
                t.bad("C17:write-command-decodes-differently", f"{label}: fragment {num}/{len(frags)} -> {p}", rep)
            want_idx = {"dhw_idx": None} if zidx == "HW" else {"zone_idx": zidx}
            for k, v in want_idx.items():
                if k == "zone_idx" and p.get(k) != v:
                    t.bad("C17:write-command-decodes-differently", f"{label}: zone {zidx} -> {p}", rep)
    return frags


def _first_diff(a: dict, b: dict):
    if a.get("zone_idx") != b.get("zone_idx"):
        return "zone_idx", f"zone {a.get('zone_idx')} -> {b.get('zone_idx')}"
    da, db = a["schedule"], b["schedule"]
    if len(da) != len(db):
        return "days", f"{len(da)} days -> {len(db)} days"
    for x, y in zip(da, db):
        if x["day_of_week"] != y["day_of_week"] or len(x["switchpoints"]) != len(y["switchpoints"]):
            return "days", f"day {x['day_of_week']}({len(x['switchpoints'])}) -> {y['day_of_week']}({len(y['switchpoints'])})"
        for s1, s2 in zip(x["switchpoints"], y["switchpoints"]):
            if s1 != s2:
                k = "time_of_day" if s1["time_of_day"] != s2["time_of_day"] else ("heat_setpoint" if "heat_setpoint" in s1 else "enabled")
                return k, f"day {x['day_of_week']}: {s1} -> {s2}"
    return "other", "differs"


def shard_codec(arg) -> E.Tally:
    i, n, quick = arg
    logcap.silence_all()
    t = E.Tally()
    j = 0

    def mine():
        nonlocal j
        j += 1
        return j % n == i

    # all 3001 setpoints, in turn at one slot of the skeleton
    for k in range(500, 3501):
        if mine():
            v = k / 100
            full = skeleton("01", 3, sp=lambda d, s: v if (d, s) == (2, 1) else 15.0 + d + s * 0.5)
            check_codec(t, full, f"setpoint {v}", deep=(k % 50 == 0))
            t.nontrivial += 1
    t.by["setpoints"] = t.n
    # all 288 times of day
    for m in range(0, 1440, 5):
        if mine():
            full = {"zone_idx": "03", "schedule": [{"day_of_week": d, "switchpoints": [{"time_of_day": tod(m), "heat_setpoint": 18.5}]} for d in range(7)]}
            check_codec(t, full, f"time {tod(m)}")
            t.nontrivial += 1
    # zones 00..0B and HW x 1..12 switchpoints per day
    for zone in [f"{z:02X}" for z in range(12)] + ["HW"]:
        for npd in range(1, 13):
            if mine():
                check_codec(t, skeleton(zone, npd), f"zone {zone}, {npd}/day")
                t.nontrivial += 1
    # small-scope product: 2 days vary, the rest fixed
    sps = (5, 5.01, 19.99, 20.3, 35)
    tms = (0, 725, 1435)
    for d in range(7):
        for nsp in (1, 2):
            for vals in itertools.product(sps, repeat=nsp):
                for times in itertools.combinations(tms, nsp):
                    if quick and (d not in (0, 6)) and nsp == 2:
                        continue
                    if not mine():
                        continue
                    full = skeleton("0B", 1)
                    full["schedule"][d]["switchpoints"] = [{"time_of_day": tod(m), "heat_setpoint": float(v)} for m, v in zip(times, vals)]
                    check_codec(t, full, f"day {d}: {list(zip(times, vals))}", deep=False)
                    t.nontrivial += 1
    # DHW on/off patterns: every assignment over 7 days x 2 switchpoints of one week-half
    for bits in range(1 << 8):
        if mine():
            full = skeleton("HW", 2)
            for b in range(8):
                full["schedule"][b // 2]["switchpoints"][b % 2]["enabled"] = bool(bits >> b & 1)
            check_codec(t, full, f"dhw pattern {bits:08b}", deep=(bits % 16 == 0))
            t.nontrivial += 1
    # compressed-length sweep: schedules whose blob length takes every residue mod 41 (last fragment 1..41 bytes)
    seen_last = set()
    for a in range(0, 400 if not quick else 160):
        if mine():
            full = skeleton("02", 1 + a % 6, sp=lambda d, s, a=a: (500 + (a * 37 + d * 11 + s * 7) % 3000) / 100)
            fr = check_codec(t, full, f"length sweep {a}")
            if fr:
                seen_last.add(len(fr[-1]) // 2)
            t.nontrivial += 1
    t.by["last_fragment_lengths_seen"] = len(seen_last)
    return t


# ---------------------------------------------------------------------------------------------
class _Tcs:
    zone_lock_idx = None


class _Zone:
    def __init__(self, idx: str) -> None:
        self.id = f"{CTL}_{idx}"
        self.idx = idx
        self.ctl = type("Ctl", (), {"id": CTL})()
        self.tcs = _Tcs()
        self._gwy = None


def rp_packets(zone_idx: str, frags: list[str]):
    from ramses_tx.message import Message
    from ramses_tx.packet import Packet

    out = []
    hdr = "00230008" if zone_idx == "HW" else f"{zone_idx}200008"
    for num, fr in enumerate(frags, 1):
        pl = f"{hdr}{len(fr) // 2:02X}{num:02X}{len(frags):02X}{fr}"
        frame = f"RP --- {CTL} {GWY} --:------ 0404 {len(pl) // 2:03d} {pl}"
        out.append(Message(Packet(dt(2024, 1, 1, 0, 0, num), "045 " + frame)))
    return out


def schedules_by_frag_count(maxf: int) -> dict[int, dict]:
    """One schedule for each fragment count 1..maxf (found by growing the number of distinct switchpoints)."""
    sch = S()
    out: dict[int, dict] = {}
    flat = skeleton("01", 1, sp=lambda d, s: 20.0, t0=lambda d, s: 420)  # compresses into a single fragment
    if len(sch.full_sched_to_fragz(flat)) == 1:
        out[1] = flat
    for npd in range(1, 13):
        for salt in range(0, 40):
            full = skeleton("01", npd, sp=lambda d, s, salt=salt: 5 + ((salt * 131 + d * 17 + s * 29) % 3000) // 50 / 2)
            f = len(sch.full_sched_to_fragz(full))
            if f <= maxf and f not in out:
                out[f] = full
        if len(out) == maxf:
            break
    return out


def shard_reassembly(arg) -> E.Tally:
    """Feed the RP packets of a schedule to the real Schedule._handle_msg in every order, with every single repeat."""
    i, n, maxf = arg
    logcap.install()
    sch = S()
    t = E.Tally()
    scheds = schedules_by_frag_count(maxf)
    j = 0
    for f, full in sorted(scheds.items()):
        frags = sch.full_sched_to_fragz(full)
        msgs = rp_packets("01", frags)
        want = full["schedule"]
        orders = []
        for perm in itertools.permutations(range(f)):
            orders.append(list(perm))
            for pos in range(f + 1):  # one repeat of any fragment at any place
                for dup in range(f):
                    orders.append(list(perm[:pos]) + [dup] + list(perm[pos:]))
        for order in orders:
            j += 1
            if j % n != i:
                continue
            t.n += 1
            t.nontrivial += 1
            s = sch.Schedule(_Zone("01"))
            rep = {"reassembly": {"f": f, "order": order, "maxf": maxf}}
            for step, k in enumerate(order):
                try:
                    s._handle_msg(msgs[k])
                    got = s.schedule
                except Exception as e:  # noqa: BLE001
                    t.bad(f"C17:reassembly-raises:{type(e).__name__}", f"{f} fragments delivered {[x + 1 for x in order[: step + 1]]}: {type(e).__name__}: {e}", rep)
                    break
                if got is not None and got != want:
                    t.bad("C17:reassembly-gives-other-schedule", f"{f} fragments delivered {[x + 1 for x in order[: step + 1]]}: a different schedule ({len(got)} days)", rep)
                    break
            else:
                if set(order) == set(range(f)) and s.schedule is None and f > 0:
                    t.by["complete-set-but-no-schedule"] += 1
            if j % 4999 == 0:
                t.sample({"fragments": f, "delivery_order": [x + 1 for x in order]})
    t.by["orders"] = t.n
    return t


def _dispatch(job) -> E.Tally:
    return globals()[job[0]](job[1])


def run(ctx) -> None:
    maxf = 5 if ctx.quick else 6
    jobs = [("shard_codec", (i, 16, ctx.quick)) for i in range(16)] + [("shard_reassembly", (i, 16, maxf)) for i in range(16)]
    total = E.pmap(_dispatch, jobs, ctx.seed)
    E.report(
        ctx,
        total,
        rule="complete sweeps inside a 7-day skeleton: all 3001 setpoints 5.00..35.00, all 288 times of day, zones 00-0B and HW x 1..12 switchpoints/day, "
        "small-scope product (day x <=2 switchpoints x 5 setpoints x 3 times), all 256 DHW on/off patterns, a compressed-length sweep; each: validator "
        "accepts => fragz->sched identity, fragment <= 41 bytes, W command decodes back. Reassembly: for schedules of 1..F fragments every permutation "
        f"and every single repeat at every place (F={maxf}) fed to the real Schedule._handle_msg: the schedule or None after every step.",
        exhaustive=True,
    )
    ctx.assumptions += ["Schedule is driven at its _handle_msg seam with a stub zone (no transfer lock held)"]


def replay(rep: dict):
    logcap.install()
    t = E.Tally()
    if "reassembly" in rep:
        r = rep["reassembly"]
        for i in range(16):
            t.merge(shard_reassembly((i, 16, r["maxf"])))
    else:
        check_codec(t, rep["schedule"], rep.get("label", "replay"))
    return [(k, v["what"]) for k, v in t.viol.items()]
