"""C17 - schedules survive the wire format (E3 codec sweeps + E2 permutations of fragment packets)."""

from __future__ import annotations

import itertools
from datetime import datetime as dt

from mc import enum as E
from mc import logcap

PROPERTY = "C17"
LEVEL = "exploration"

CTL = "01:145038"
GWY = "18:006402"


def S():
    import ramses_rf.system.schedule as sch

    return sch


def tod(m: int) -> str:
    return f"{m // 60:02d}:{m % 60:02d}"


def skeleton(zone: str, n_per_day: int, sp=lambda d, k: 15.0 + d + k * 0.5, t0=lambda d, k: 360 + k * 95 + d * 5) -> dict:
    """A 7-day schedule with n switchpoints per day (ordered times on the 5-minute grid)."""
    days = []
    for d in range(7):
        sps = []
        for k in range(n_per_day):
            m = min(t0(d, k) // 5 * 5, 1435 - (n_per_day - 1 - k) * 5)
            if zone == "HW":
                sps.append({"time_of_day": tod(m), "enabled": bool((d + k) % 2)})
            else:
                sps.append({"time_of_day": tod(m), "heat_setpoint": sp(d, k)})
        days.append({"day_of_week": d, "switchpoints": sps})
    return {"zone_idx": zone, "schedule": days}


def wire_zone(full: dict) -> dict:
    """What the library passes to the codec: DHW is addressed as idx 00."""
    return dict(full, zone_idx="00") if full["zone_idx"] == "HW" else full


def check_codec(t: E.Tally, full: dict, label: str, deep: bool = True) -> list[str] | None:
    sch = S()
    from ramses_tx.command import Command
    from ramses_tx.message import Message

    t.n += 1
    try:
        sch.SCH_FULL_SCHEDULE(full)
    except Exception:  # noqa: BLE001
        t.by["rejected-by-validator"] += 1
        return None
    rep = {"schedule": full, "label": label}
    try:
        frags = sch.full_sched_to_fragz(wire_zone(full))
        back = sch.fragz_to_full_sched(frags)
    except Exception as e:  # noqa: BLE001
        t.bad(f"C17:codec-raises:{type(e).__name__}", f"{label}: {type(e).__name__}: {e}", rep)
        return None
    if back != wire_zone(full):
        diff = _first_diff(wire_zone(full), back)
        t.bad(f"C17:codec-not-identity:{diff[0]}", f"{label}: {diff[1]}", rep)
    for num, fr in enumerate(frags, 1):
        if len(fr) > 82 or len(fr) % 2:
            t.bad("C17:fragment-too-long", f"{label}: fragment {num} has {len(fr) // 2} bytes", rep)
    if deep:
        zidx = full["zone_idx"]
        # every way the builder's docstring allows the zone / the hot water to be addressed
        forms = ("HW", "FA", 0xFA) if zidx == "HW" else (zidx, int(zidx, 16))
        for num, fr, addr in ((n_, f_, a_) for n_, f_ in enumerate(frags, 1) for a_ in forms):
            try:
                cmd = Command.set_schedule_fragment(CTL, addr, num, len(frags), fr)
                p = Message._from_cmd(cmd).payload
            except Exception as e:  # noqa: BLE001
                t.bad(f"C17:write-command-rejected:{type(e).__name__}", f"{label}: fragment {num}/{len(frags)} ({len(fr) // 2} bytes) addressed as {addr!r}: {type(e).__name__}: {str(e)[:120]}", rep)
                continue
            if p.get("frag_number") != num or p.get("total_frags") != len(frags) or p.get("fragment") != fr or p.get("frag_length") != len(fr) // 2:
                t.bad("C17:write-command-decodes-differently", f"{label}: fragment {num}/{len(frags)} -> {p}", rep)
            want_idx = {"dhw_idx": None} if zidx == "HW" else {"zone_idx": zidx}
            for k, v in want_idx.items():
                if k == "zone_idx" and p.get(k) != v:
                    t.bad("C17:write-command-decodes-differently", f"{label}: zone {zidx} -> {p}", rep)
    return frags


def _first_diff(a: dict, b: dict):
    if a.get("zone_idx") != b.get("zone_idx"):
        return "zone_idx", f"zone {a.get('zone_idx')} -> {b.get('zone_idx')}"
    da, db = a["schedule"], b["schedule"]
    if len(da) != len(db):
        return "days", f"{len(da)} days -> {len(db)} days"
    for x, y in zip(da, db):
        if x["day_of_week"] != y["day_of_week"] or len(x["switchpoints"]) != len(y["switchpoints"]):
            return "days", f"day {x['day_of_week']}({len(x['switchpoints'])}) -> {y['day_of_week']}({len(y['switchpoints'])})"
        for s1, s2 in zip(x["switchpoints"], y["switchpoints"]):
            if s1 != s2:
                k = "time_of_day" if s1["time_of_day"] != s2["time_of_day"] else ("heat_setpoint" if "heat_setpoint" in s1 else "enabled")
                return k, f"day {x['day_of_week']}: {s1} -> {s2}"
    return "other", "differs"


def shard_codec(arg) -> E.Tally:
    i, n, quick = arg
    logcap.silence_all()
    t = E.Tally()
    j = 0

    def mine():
        nonlocal j
        j += 1
        return j % n == i

    # all 3001 setpoints, in turn at one slot of the skeleton
    for k in range(500, 3501):
        if mine():
            v = k / 100
            full = skeleton("01", 3, sp=lambda d, s: v if (d, s) == (2, 1) else 15.0 + d + s * 0.5)
            check_codec(t, full, f"setpoint {v}", deep=(k % 50 == 0))
            t.nontrivial += 1
    t.by["setpoints"] = t.n
    # all 288 times of day
    for m in range(0, 1440, 5):
        if mine():
            full = {"zone_idx": "03", "schedule": [{"day_of_week": d, "switchpoints": [{"time_of_day": tod(m), "heat_setpoint": 18.5}]} for d in range(7)]}
            check_codec(t, full, f"time {tod(m)}")
            t.nontrivial += 1
    # zones 00..0B and HW x 1..12 switchpoints per day
    for zone in [f"{z:02X}" for z in range(12)] + ["HW"]:
        for npd in range(1, 13):
            if mine():
                check_codec(t, skeleton(zone, npd), f"zone {zone}, {npd}/day")
                t.nontrivial += 1
    # small-scope product: 2 days vary, the rest fixed
    sps = (5, 5.01, 19.99, 20.3, 35)
    tms = (0, 725, 1435)
    for d in range(7):
        for nsp in (1, 2):
            for vals in itertools.product(sps, repeat=nsp):
                for times in itertools.combinations(tms, nsp):
                    if quick and (d not in (0, 6)) and nsp == 2:
                        continue
                    if not mine():
                        continue
                    full = skeleton("0B", 1)
                    full["schedule"][d]["switchpoints"] = [{"time_of_day": tod(m), "heat_setpoint": float(v)} for m, v in zip(times, vals)]
                    check_codec(t, full, f"day {d}: {list(zip(times, vals))}", deep=False)
                    t.nontrivial += 1
    # DHW on/off patterns: every assignment over 7 days x 2 switchpoints of one week-half
    for bits in range(1 << 8):
        if mine():
            full = skeleton("HW", 2)
            for b in range(8):
                full["schedule"][b // 2]["switchpoints"][b % 2]["enabled"] = bool(bits >> b & 1)
            check_codec(t, full, f"dhw pattern {bits:08b}", deep=(bits % 16 == 0))
            t.nontrivial += 1
    # compressed-length sweep: schedules whose blob length takes every residue mod 41 (last fragment 1..41 bytes)
    seen_last = set()
    for a in range(0, 400 if not quick else 160):
        if mine():
            full = skeleton("02", 1 + a % 6, sp=lambda d, s, a=a: (500 + (a * 37 + d * 11 + s * 7) % 3000) / 100)
            fr = check_codec(t, full, f"length sweep {a}")
            if fr:
                seen_last.add(len(fr[-1]) // 2)
            t.nontrivial += 1
    t.by["last_fragment_lengths_seen"] = len(seen_last)
    return t


def gen_schedule(a: int) -> dict:
    """The a-th member of a deterministic family of valid schedules with irregular day lengths, times and values (so that the
    compressed length - hence fragment count and last-fragment length - varies widely)."""
    x = (a * 2654435761) & 0xFFFFFFFF

    def rnd() -> int:
        nonlocal x
        x = (x * 1103515245 + 12345) & 0x7FFFFFFF
        return x

    zone = ("02", "07", "HW")[a % 3]
    maxn = 1 + a % 6
    days = []
    for d in range(7):
        times = sorted({(rnd() % 288) * 5 for _ in range(1 + rnd() % maxn)})
        sps = []
        for m in times:
            if zone == "HW":
                sps.append({"time_of_day": tod(m), "enabled": bool(rnd() % 2)})
            else:
                sps.append({"time_of_day": tod(m), "heat_setpoint": (500 + rnd() % 3001) / 100 if a % 2 else (10 + rnd() % 40) / 2})
        days.append({"day_of_week": d, "switchpoints": sps})
    return {"zone_idx": zone, "schedule": days}


def shard_tail(arg) -> E.Tally:
    """Targeted compressed-length sweep: schedules are generated (deterministically) until the LAST fragment has taken every
    length 1..41 bytes at least `per` times for every fragment count 2..5 - the boundary cases of the fragmenter."""
    i, n, per, budget = arg
    logcap.silence_all()
    sch = S()
    t = E.Tally()
    have: dict[tuple, int] = {}
    need = {(f, ln) for f in (2, 3, 4, 5) for ln in range(1, 42)}
    a = 0
    while a < budget and any(have.get(k, 0) < per for k in need):
        a += 1
        full = gen_schedule(a)
        try:
            frags = sch.full_sched_to_fragz(wire_zone(full))
        except Exception:  # noqa: BLE001
            frags = None
        k = (len(frags), len(frags[-1]) // 2) if frags else None
        if k is not None and have.get(k, 0) >= per:
            continue  # this boundary class is already covered: skip the (more expensive) full check
        if k is not None:
            have[k] = have.get(k, 0) + 1
        if a % n != i:
            continue
        check_codec(t, full, f"tail sweep {a} ({k})")
        t.nontrivial += 1
    t.by["tail_classes_covered"] = sum(1 for k in need if have.get(k, 0) >= per) if i == 0 else 0
    t.by["tail_classes_wanted"] = len(need) if i == 0 else 0
    t.by["tail_candidates_generated"] = a if i == 0 else 0
    return t


# ---------------------------------------------------------------------------------------------
class _Tcs:
    zone_lock_idx = None


class _Zone:
    def __init__(self, idx: str) -> None:
        self.id = f"{CTL}_{idx}"
        self.idx = idx
        self.ctl = type("Ctl", (), {"id": CTL})()
        self.tcs = _Tcs()
        self._gwy = None


def rp_packets(zone_idx: str, frags: list[str]):
    from ramses_tx.message import Message
    from ramses_tx.packet import Packet

    out = []
    hdr = "00230008" if zone_idx == "HW" else f"{zone_idx}200008"
    for num, fr in enumerate(frags, 1):
        pl = f"{hdr}{len(fr) // 2:02X}{num:02X}{len(frags):02X}{fr}"
        frame = f"RP --- {CTL} {GWY} --:------ 0404 {len(pl) // 2:03d} {pl}"
        out.append(Message(Packet(dt(2024, 1, 1, 0, 0, num), "045 " + frame)))
    return out


def rp_packets_checked(t: E.Tally, zone_idx: str, full: dict, frags: list[str]):
    """rp_packets(), but a fragment that no reply frame can carry is the library's fault (a violation), not the harness's."""
    try:
        return rp_packets(zone_idx, frags)
    except Exception as e:  # noqa: BLE001
        t.bad("C17:fragment-too-long", f"fragments of {[len(f) // 2 for f in frags]} bytes: a reply carrying one of them is not a valid frame ({type(e).__name__}: {str(e)[:80]})", {"schedule": full, "label": "reassembly set-up"})
        return None


def schedules_by_frag_count(maxf: int) -> dict[int, dict]:
    """One schedule for each fragment count 1..maxf (found by growing the number of distinct switchpoints)."""
    sch = S()
    out: dict[int, dict] = {}
    flat = skeleton("01", 1, sp=lambda d, s: 20.0, t0=lambda d, s: 420)  # compresses into a single fragment
    if len(sch.full_sched_to_fragz(flat)) == 1:
        out[1] = flat
    for npd in range(1, 13):
        for salt in range(0, 40):
            full = skeleton("01", npd, sp=lambda d, s, salt=salt: 5 + ((salt * 131 + d * 17 + s * 29) % 3000) // 50 / 2)
            f = len(sch.full_sched_to_fragz(full))
            if f <= maxf and f not in out:
                out[f] = full
        if len(out) == maxf:
            break
    return out


def shard_reassembly(arg) -> E.Tally:
    """Feed the RP packets of a schedule to the real Schedule._handle_msg in every order, with every single repeat."""
    i, n, maxf = arg
    logcap.install()
    sch = S()
    t = E.Tally()
    scheds = schedules_by_frag_count(maxf)
    j = 0
    for f, full in sorted(scheds.items()):
        frags = sch.full_sched_to_fragz(full)
        msgs = rp_packets_checked(t, "01", full, frags)
        if msgs is None:
            continue
        want = full["schedule"]
        orders = []
        for perm in itertools.permutations(range(f)):
            orders.append(list(perm))
            for pos in range(f + 1):  # one repeat of any fragment at any place
                for dup in range(f):
                    orders.append(list(perm[:pos]) + [dup] + list(perm[pos:]))
        for order in orders:
            j += 1
            if j % n != i:
                continue
            t.n += 1
            t.nontrivial += 1
            s = sch.Schedule(_Zone("01"))
            rep = {"reassembly": {"f": f, "order": order, "maxf": maxf}}
            for step, k in enumerate(order):
                try:
                    s._handle_msg(msgs[k])
                    got = s.schedule
                except Exception as e:  # noqa: BLE001
                    t.bad(f"C17:reassembly-raises:{type(e).__name__}", f"{f} fragments delivered {[x + 1 for x in order[: step + 1]]}: {type(e).__name__}: {e}", rep)
                    break
                if got is not None and got != want:
                    t.bad("C17:reassembly-gives-other-schedule", f"{f} fragments delivered {[x + 1 for x in order[: step + 1]]}: a different schedule ({len(got)} days)", rep)
                    break
            else:
                if set(order) == set(range(f)) and s.schedule is None and f > 0:
                    t.by["complete-set-but-no-schedule"] += 1
            if j % 4999 == 0:
                t.sample({"fragments": f, "delivery_order": [x + 1 for x in order]})
    t.by["orders"] = t.n
    return t


def shard_supersede(arg) -> E.Tally:
    """Not from the initial state: the zone already holds schedule A (complete); then the reply packets of a different
    schedule B - same or another fragment count - arrive in every order, with every single repeat. Until B is complete the
    view may still be A (or nothing); once every fragment of B has been delivered it must be B or nothing - never A, never
    anything else."""
    i, n, maxf = arg
    logcap.install()
    sch = S()
    t = E.Tally()
    scheds = schedules_by_frag_count(maxf)
    alt: dict[int, dict] = {}
    for f, full in scheds.items():  # a second schedule with the same fragment count
        for salt in range(1, 400):
            cand = {"zone_idx": "01", "schedule": [{"day_of_week": d["day_of_week"], "switchpoints": [dict(sp, heat_setpoint=round(5 + (sp["heat_setpoint"] * 7 + salt * 0.5 + d["day_of_week"]) % 30, 1)) for sp in d["switchpoints"]]} for d in full["schedule"]]}
            if cand != full and len(sch.full_sched_to_fragz(cand)) == f:
                alt[f] = cand
                break
    # ... and pairs that differ only in their tail: the leading fragment(s) of A and B are identical
    from mc import ctlsim

    pairs = []
    for fa, A in sorted(scheds.items()):
        for fb, B in sorted(list(scheds.items()) + [(f, b) for f, b in alt.items()], key=lambda x: x[0]):
            pairs.append((fa, A, fb, B))
    for kind in ("T2", "T3"):
        for va, vb in ((0, 1), (1, 0), (2, 5)):
            A = {"zone_idx": "01", "schedule": ctlsim.make_tail_schedule("01", va, kind)}
            B = {"zone_idx": "01", "schedule": ctlsim.make_tail_schedule("01", vb, kind)}
            if int(kind[1]) <= maxf + 1:
                pairs.append((int(kind[1]), A, int(kind[1]), B))
    j = 0
    for fa, A, fb, B in pairs:
        if True:
            if B == A:
                continue
            msgs_a = rp_packets_checked(t, "01", A, sch.full_sched_to_fragz(A))
            msgs_b = rp_packets_checked(t, "01", B, sch.full_sched_to_fragz(B))
            if msgs_a is None or msgs_b is None:
                continue
            orders = []
            for perm in itertools.permutations(range(fb)):
                orders.append(list(perm))
                for pos in range(fb + 1):
                    for dup in range(fb):
                        orders.append(list(perm[:pos]) + [dup] + list(perm[pos:]))
            for order in orders:
                j += 1
                if j % n != i:
                    continue
                t.n += 1
                t.nontrivial += 1
                s = sch.Schedule(_Zone("01"))
                for m in msgs_a:
                    s._handle_msg(m)
                rep = {"supersede": {"fa": fa, "fb": fb, "same": B is alt.get(fb), "order": order, "maxf": maxf}}
                if s.schedule != A["schedule"]:
                    t.bad("C17:reassembly-gives-other-schedule:first", f"{fa} fragments in order did not give the schedule", rep)
                    continue
                delivered: set = set()
                for step, k in enumerate(order):
                    try:
                        s._handle_msg(msgs_b[k])
                        got = s.schedule
                    except Exception as e:  # noqa: BLE001
                        t.bad(f"C17:reassembly-raises:{type(e).__name__}:superseding", f"holding a {fa}-fragment schedule, then fragments {[x + 1 for x in order[: step + 1]]} of a {fb}-fragment one: {type(e).__name__}: {e}", rep)
                        break
                    delivered.add(k)
                    complete = len(delivered) == fb
                    if got is not None and got != B["schedule"] and (complete or got != A["schedule"]):
                        what = "still the superseded schedule" if got == A["schedule"] else "a schedule that is neither"
                        t.bad(f"C17:reassembly-gives-other-schedule:{'superseded-kept' if got == A['schedule'] else 'neither'}", f"holding a {fa}-fragment schedule, then fragments {[x + 1 for x in order[: step + 1]]} of a different {fb}-fragment one ({'all delivered' if complete else 'incomplete'}): {what}", rep)
                        break
    t.by["supersede_orders"] = t.n
    return t


def _dispatch(job) -> E.Tally:
    return globals()[job[0]](job[1])


def run(ctx) -> None:
    maxf = 5 if ctx.quick else 6
    jobs = [("shard_codec", (i, 16, ctx.quick)) for i in range(16)] + [("shard_reassembly", (i, 16, maxf)) for i in range(16)]
    jobs += [("shard_tail", (i, 8, 2 if ctx.quick else 6, 25000 if ctx.quick else 120000)) for i in range(8)]
    jobs += [("shard_supersede", (i, 8, 3 if ctx.quick else 4)) for i in range(8)]
    total = E.pmap(_dispatch, jobs, ctx.seed)
    E.report(
        ctx,
        total,
        rule="complete sweeps inside a 7-day skeleton: all 3001 setpoints 5.00..35.00, all 288 times of day, zones 00-0B and HW x 1..12 switchpoints/day, "
        "small-scope product (day x <=2 switchpoints x 5 setpoints x 3 times), all 256 DHW on/off patterns, a compressed-length sweep; each: validator "
        "accepts => fragz->sched identity, fragment <= 41 bytes, W command decodes back. Reassembly: for schedules of 1..F fragments every permutation "
        f"and every single repeat at every place (F={maxf}) fed to the real Schedule._handle_msg: the schedule or None after every step; the same from a "
        "non-initial state (a complete schedule A already held, then every order/repeat of the fragments of a different schedule B with the same or another "
        "fragment count: B or nothing once B is complete); a targeted tail sweep until the last fragment has had every length 1..41 for 2..5 fragments.",
        exhaustive=True,
    )
    ctx.assumptions += ["Schedule is driven at its _handle_msg seam with a stub zone (no transfer lock held)"]


def replay(rep: dict):
    logcap.install()
    t = E.Tally()
    if "supersede" in rep:
        r = rep["supersede"]
        for i in range(8):
            t.merge(shard_supersede((i, 8, r["maxf"])))
    elif "reassembly" in rep:
        r = rep["reassembly"]
        for i in range(16):
            t.merge(shard_reassembly((i, 16, r["maxf"])))
    else:
        check_codec(t, rep["schedule"], rep.get("label", "replay"))
    return [(k, v["what"]) for k, v in t.viol.items()]
